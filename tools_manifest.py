"""Generates MANIFEST.json (kept valid at all times).  Run: /venv/bin/python tools_manifest.py"""
import json
import os

HERE = os.path.dirname(os.path.abspath(__file__))

NA = {
    "C01": "pure function of (object, format, flag): no schedule, clock, fault, crash point or history in the statement; needs an independent orbital evaluator over generated inputs, which is input generation, not simulation",
    "C02": "pure function of the object on a fault-free disk; crash/I-O-error aspects of save/reload live in C07/C08/C13; the fault-free round trip is only used as a baseline inside C13/C18",
    "C03": "pure function of file bytes against published format layouts; no fault or interleaving can change the answer",
    "C04": "pure numerical relation between unit constants and parsers; nothing for a scheduler or fault injector to vary",
    "C05": "pure function of file contents (stateless, deterministic heuristic cascade)",
    "C06": "pure mathematics over in-memory inputs; no I/O, state or concurrency",
    "C10": "pure function over convention tables and bases; exhaustive table enumeration is not simulation",
    "C14": "pure functions over in-memory objects; no state survives a call, so there is no history to explore",
    "C15": "iterating a pure function on a fault-free disk; hidden global state that could make cycles differ is C16's subject",
    "C17": "finite enumeration over (module x operation x pattern x name) tables = table checking, not simulation; its two I/O-ordering clauses are observed at the seam inside C08 (FileFormatError/required check before open) and C07 (misnamed files)",
    "C19": "pure function of (object, template, kwargs); its error-funnel clause (WriteInputError / FileFormatError) is exercised inside C08",
    "C20": "pure functions of their arguments",
}

CHECKS = {
    "C07": dict(level="fault_enumeration", ref="DESIGN.md section 3 (C07)",
        technique="deterministic simulation: crash-prefix enumeration + seeded storage-fault injection at the read seam (SimDisk), step-budget liveness",
        text="Every line-boundary crash prefix of every corpus file up to 6000 lines (2000 seeded cuts for each of the five larger files) and of iodata-written files is enumerated (thorough) or sampled (quick), plus seeded storage faults (byte cuts, torn tails, lost/duplicated/swapped blocks and lines, bit flips, field overwrites, misnamed files) and, for a fifth of the seeded runs, short reads of 1-8191 bytes per call whose outcome must equal that of one full read; each faulted file is loaded through the real API on SimDisk and the outcome, the exception contract, line numbers, handle table, shapes and a logical step budget are checked. Evidence, not proof: only line/write boundaries are enumerated.",
        note="Trusts CPython's io stack and sys.monitoring, numpy, the storage-fault model (prefix/blocks), and the shape-relation table of the oracle."),
    "C08": dict(level="fault_enumeration", ref="DESIGN.md section 3 (C08)",
        technique="deterministic simulation: write-fault enumeration at every text/raw write and close on SimDisk, with pre-flight defect table",
        text="For seeded workloads over all 13 dump_one, 4 dump_many formats and both input writers (x defect x format selection x target state x iterable kind x allow_changes) the fault-free run is recorded and an OSError is injected at every text-level write, every raw write and at close (thorough; seeded sample in quick); exception type, zero-touch of the target for pre-flight errors, byte identity under short writes, exactly-once pulls and the handle table are checked. The finite defect space (format x every subset of the declared required attributes x target state x frame index; incompatibility class x format x allow_changes x target state) is enumerated completely in both tiers; fault kinds include a persistent disk-full and the environment knob 'warnings as errors'.",
        note="Trusts CPython's TextIOWrapper/BufferedWriter (real), the SimRaw fault model, and the incompatibility table taken from the property's quantifier (two-sided oracle)."),
    "C09": dict(level="exploration", ref="DESIGN.md section 3 (C09)",
        technique="deterministic simulation: seeded histories of dumps with write faults and baton-scheduled threads sharing one object; deep snapshot oracle",
        text="Seeded histories of 1-4 dumps / write_input calls of the same object (with and without write faults, with allow_changes) and 2-4 scheduler-interleaved threads dumping one shared object; a deep snapshot (hidden fields, array bytes, dict contents, public view) must be unchanged after every call and at every instant a concurrent observer thread looks, each thread's bytes must equal the solo run, the caller may edit the object between dumps, and successfully written wavefunction files are read back (electron count, spin polarisation).",
        note="Trusts the canonical-digest code; the wavefunction-equivalence clause is only checked on the objects the workload produces (density matrices, nelec, spinpol), not over its input domain."),
    "C11": dict(level="exploration", ref="DESIGN.md section 3 (C11)",
        technique="deterministic simulation (weakest fit): seeded operation histories with scheduler-interleaved observer reads against an executable reference model",
        text="Seeded histories (1-12 operations) of constructions, assignments, clears and reads on IOData with an observer whose reads are interleaved by the seeded scheduler; invariants I1-I7 and a small reference model are checked after every step; bounded sub-spaces (constructions with <=1 argument x all operation sequences of depth <=2, <=2 arguments x depth <=1 in thorough) are enumerated completely; threaded runs execute 2-3 histories on distinct objects under the baton scheduler and must equal their solo runs.",
        note="No I/O, clock or thread in this property; the only simulated nondeterminism is where reads interleave with writes. Trusts the reference model."),
    "C12": dict(level="exploration", ref="DESIGN.md section 3 (C12)",
        technique="deterministic simulation (weakest fit): seeded operation histories on MolecularOrbitals/Shell with interleaved reads, invariant oracle",
        text="Seeded histories of constructions and assignments on MolecularOrbitals and Shell objects with interleaved reads; the algebraic invariants of the statement are checked after every step, rejected operations must leave the object unchanged; restricted/unrestricted orbitals with 1-3 orbitals per spin x every occupation pattern of the alphabets x all assignment sequences up to depth 2-3 are enumerated completely.",
        note="Same framing as C11. Trusts the invariant formulas."),
    "C13": dict(level="fault_enumeration", ref="DESIGN.md section 3 (C13)",
        technique="deterministic simulation: instrumented producer/consumer histories over dump_many/load_many on SimDisk, crash-prefix enumeration at every line, single-field corruption",
        text="Seeded frame sequences are written with dump_many from list/generator/raising-generator iterables on SimDisk; the recorded history must show lazy exactly-once in-order pulls; the file is then cut at every line boundary (thorough) and single numeric fields are corrupted; load_many must yield exactly the complete frames (plus at most one warned item), raise LoadError at the malformed frame, and agree frame-by-frame with load_one.",
        note="Trusts SimDisk, the canonical digest and the frame byte ranges taken from the write-event log."),
    "C16": dict(level="exploration", ref="DESIGN.md section 3 (C16)",
        technique="deterministic simulation: seeded call histories and baton-scheduled real threads pre-empted at sys.monitoring LINE events, differential against pristine-process outcomes + module-table digests",
        text="A pool of API calls is executed in seeded orders/repetitions in one interpreter and interleaved from 2-16 real threads under a seeded scheduler (pre-emption at iodata line granularity and at seam calls); every outcome must equal the outcome of the same call alone in a pristine forked process (cross-checked against really fresh interpreters) and all module-level tables must keep their pristine digest; memo caches and other scratch state are reset before every run and judged by outcomes; calls seen to write process-global state or to emit warnings when run alone are interleaved pairwise with pre-emption right after every global store and after every save/restore/use of the warnings machinery (a seam); every run has a step budget derived from the calls' solo step counts (bounded liveness), a seeded content of uninitialised memory (allocator seam: np.empty called from iodata), an application warning filter (ignore/always), a simulated wall clock (clock seam) and numpy print options; intrinsic oracles (a frame must not change after it was handed out) and metamorphic ones (another memory layout of equal values) complement the differential.",
        note="Trusts fork-of-pristine as 'fresh interpreter' (cross-checked against real fresh subprocesses in thorough), line-granularity pre-emption, which warnings reach whom is excluded from verdicts in threaded runs (that calls return, with the same objects and bytes, is not); numpy/scipy internals see the real allocator."),
    "C18": dict(level="exploration", ref="DESIGN.md section 3 (C18)",
        technique="deterministic simulation: differential CLI-vs-API runs under identical seeded input crash states and output write-fault plans (in-process main() and real subprocesses with seams installed via sitecustomize)",
        text="Each seeded workload (input file state x options x output fault plan) is executed through the API, through iodata.__main__.main() in-process and (sampled) as a real python -m iodata subprocess on the same SimDisk plan; exit status 0 requires byte-identical output to the API, API failure requires non-zero status with a message, pre-flight rejections must leave existing targets untouched.",
        note="Trusts SimDisk and the sitecustomize seam installer; the fault-free option space is only sampled."),
}

BUILT = [l.strip() for l in open(os.path.join(HERE, "BUILT")).read().split()] if os.path.exists(os.path.join(HERE, "BUILT")) else []


def main():
    checks = []
    na = [{"property_id": k, "reason": v} for k, v in sorted(NA.items())]
    for pid, c in sorted(CHECKS.items()):
        if pid not in BUILT:
            na.append({"property_id": pid, "reason": "check designed (DESIGN.md section 3) but not built yet in this round; claimed once ./check %s exists" % pid})
            continue
        checks.append({
            "property_id": pid,
            "quick_cmd": f"./check {pid} --tier quick",
            "thorough_cmd": f"./check {pid} --tier thorough",
            "evidence_file": f"evidence/{pid}.json",
            "replay_cmd_template": f"./check {pid} --replay {{path}}",
            "engine": "sim",
            "level_claimed": {"category": c["level"], "text": c["text"], "design_ref": c["ref"]},
            "level_note": c["note"],
            "technique": c["technique"],
        })
    na.sort(key=lambda d: d["property_id"])
    man = {
        "version": 1,
        "setup_cmd": "/venv/bin/python -c \"import sys; sys.path.insert(0, '/repo'); import numpy, scipy, attrs, iodata; print('ok', iodata.__file__)\"",
        "hooks": {
            "guard": "IODATA_VERIF_SIM",
            "enable": "no source hook in /repo: the seams are the module globals iodata.api.open / iodata.utils.open (assigned from outside), sys.monitoring LINE events, sys.argv, and /verif/sim/sitehook/sitecustomize.py on PYTHONPATH for CLI subprocesses (active only when IODATA_VERIF_SIM is set)",
            "baseline_off_cmd": "cd /repo && /venv/bin/python -m pytest -ra -q -p no:cacheprovider --timeout=900 --continue-on-collection-errors",
            "source_commits": [],
            "add_only": True,
        },
        "engines": [{
            "name": "sim", "path": "sim/",
            "serves_properties": [c["property_id"] for c in checks],
            "kind_free_text": "deterministic simulation with fault injection: SimDisk behind iodata's open() seams, seeded write/storage/crash faults, sys.monitoring step clock, baton scheduler for real threads, concrete replayable traces with delta-debugging minimisation",
        }],
        "checks": checks,
        "not_applicable": na,
        "notes": "Launcher: ./check <id> [--tier quick|thorough] [--replay file]. VERIF_SEED selects the seed, VERIF_REPO another tree (mutant testing), VERIF_WORKERS the worker count. fix: commits in /repo are listed in known_findings.json.",
    }
    with open(os.path.join(HERE, "MANIFEST.json"), "w") as fh:
        json.dump(man, fh, indent=1)
        fh.write("\n")


if __name__ == "__main__":
    main()
