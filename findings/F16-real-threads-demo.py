"""Real threads, no simulator: two threads load a MOL2 file whose bond types are unknown (one LoadWarning per bond)
while the application shows every warning (simplefilter('always'))."""
import io, os, resource, sys, tempfile, threading, time, warnings
resource.setrlimit(resource.RLIMIT_AS, (3 << 30, 3 << 30))
sys.path.insert(0, "/repo")
import iodata
sys.setswitchinterval(float(sys.argv[2]) if len(sys.argv) > 2 else 1e-6)
warnings.simplefilter("always")
nat = 40
atoms = "".join(f"{i+1:7d} C{i+1:<6d} {i*1.0:9.4f}    0.0000    0.0000 C.3     1 UNK  0.0000\n" for i in range(nat))
bonds = "".join(f"{i+1:6d}{i+1:6d}{i+2:6d}   zz\n" for i in range(nat - 1))
text = f"@<TRIPOS>MOLECULE\nunk\n {nat} {nat-1} 0 0\nSMALL\nNO_CHARGES\n\n@<TRIPOS>ATOM\n{atoms}@<TRIPOS>BOND\n{bonds}"
tmp = tempfile.mkdtemp()
fn = os.path.join(tmp, "unk.mol2")
open(fn, "w").write(text)
N = int(sys.argv[1])
progress = [0, 0]
def work(i):
    for k in range(N):
        iodata.load_one(fn)
        progress[i] = k
sys.stderr = io.StringIO()
ts = [threading.Thread(target=work, args=(i,), daemon=True) for i in range(2)]
t0 = time.time()
for t in ts: t.start()
for t in ts: t.join(60)
alive = [t.is_alive() for t in ts]
sys.stderr = sys.__stderr__
print("threads still running after 60 s:", alive, "iterations done", progress, "max rss MB", resource.getrusage(resource.RUSAGE_SELF).ru_maxrss // 1024, "wall", round(time.time() - t0, 1))
os._exit(1 if any(alive) else 0)
