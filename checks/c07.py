"""C07 - loading any file content ends in a valid object or a LoadError, nothing else.

Crash-prefix enumeration (every line boundary of every corpus file / iodata-written file) plus
seeded storage faults; the reader is the real iodata API on SimDisk.
"""

import copy
import gc
import os
import warnings
from fnmatch import fnmatch

import numpy as np

from sim import canon, common, faults, gen, seams
from sim import shrink as shr
from sim.common import Stats
from sim.sched import StepBudgetExceeded, Steps

ID = "C07"
LEVEL = "fault_enumeration"
DEFAULT_SEED = 7007
BATCH = 1
TASK_TIMEOUT = 1200
MEM_GIB = 4
WALL_CAP = {"quick": 110, "thorough": 3000}
RULE = (
    "One evaluation = one load_one/load_many call (generator fully consumed, closed early or dropped) on a file "
    "whose bytes were produced by a writer (corpus file = foreign QC program, or iodata's own dump on SimDisk) and "
    "then passed through the crash/storage fault model. Enumerated: every line-boundary crash prefix of every "
    "corpus file up to 6000 lines (189 of 194 loadable files; 2000 seeded cut points for each of the five larger "
    "ones) in thorough; seeded 1-in-N sample in quick. Byte-offset crash prefixes: every offset of every file <= 4000 "
    "bytes (thorough), every 4th offset of every file <= 1200 bytes (quick). Seeded: byte/block/raw-write-boundary cuts, torn tails, "
    "lost/duplicated/swapped blocks and lines, bit flips, character substitutions, numeric-field overwrites incl. "
    "count inflation, misnamed files, 1-3 faults per run. Non-trivial = the faulted bytes differ from the intact "
    "file; distinct = (source file, api, sha of faulted bytes)."
)
ASSUMPTIONS = [
    "crash model: any prefix / block-granular loss, duplication, reordering; no fsync/rename exists in iodata to refine it",
    "read-time EIO and BaseExceptions (KeyboardInterrupt) are not injected: the statement is about readable files",
    "lineno oracle: 0 <= exc.lineno <= lines delivered + EOF hits at the seam, and LineIterator.lineno == deliveries - pushed-back lines",
    "RLIMIT_AS 4 GiB turns inflated counts into MemoryError (funnelled to LoadError) instead of an OOM kill",
]
COMPONENTS = {
    "real": ["iodata.api.load_one/load_many", "iodata.utils.LineIterator", "all 25 iodata.formats parsers",
             "IOData/MolecularOrbitals/Shell validators", "io.TextIOWrapper (decoding, newline handling)", "numpy"],
    "stub": ["file system (SimDisk)", "crashed writer = fault model applied to the bytes a real writer produced",
             "consumer of the load_many generator (exhaust/list/close/drop)"],
}

SLOW = {
    "psi4_mn_cc_pvqz_pure.molden", "psi4_cuh_cc_pvqz_pure.molden", "psi4_zn_cc_pvqz_pure.molden",
    "orca_cuh_cc_pvqz_pure.molden", "orca_zn_cc_pvqz_pure.molden", "nh3_psi4_1.3.2_aug_cc_pvqz_cart.molden",
}
# corpus files that are meant to be read with an explicitly given format
ALT_FORMATS = {"water_extended_trajectory.xyz": "extxyz", "al_fcc.xyz": "extxyz", "mgo.xyz": "extxyz",
               "s66_4114_02WaterMeOH.xyz": "extxyz"}
MISNAMES = ["x.xyz", "x.fchk", "x.molden", "x.wfn", "x.wfx", "x.mkl", "x.pdb", "x.mol2", "x.sdf", "x.gro", "x.cube",
            "x.log", "x.out", "x.cp2k.out", "x.qchemlog", "x.dat", "x.com", "x.crd", "x.mwfn", "x.extxyz",
            "POSCAR_x", "CHGCAR_x", "LOCPOT_x", "x.FCIDUMP", "x.unknownext", "noext"]
DUMP_SOURCES = {
    # fmt -> (filename, recipes, many?)
    "xyz": ("w.xyz", ["water.xyz", "al_fcc.xyz"]),
    "sdf": ("w.sdf", ["formamide.sdf", "example.sdf"]),
    "mol2": ("w.mol2", ["water.mol2", "benzene.mol2"]),
    "pdb": ("w.pdb", ["water_single.pdb", "ch5plus.pdb"]),
    "poscar": ("POSCAR_w", ["POSCAR.water"]),
    "cube": ("w.cube", ["cubegen_h2o_5points.cube"]),
    "fcidump": ("w.fcidump", ["FCIDUMP.psi4.h2"]),
    "json_qcschema": ("w.json", ["CuSCN_molecule.json", "LiCl_STO4G_Gaussian_input.json"]),
    "fchk": ("w.fchk", ["h2o_sto3g.fchk", "ch3_hf_sto3g.fchk"]),
    "molden": ("w.molden", ["h2o.molden.input"]),
    "molekel": ("w.mkl", ["h2_sto3g.mkl"]),
    "wfn": ("w.wfn", ["he_s_orbital.wfn", "h2o_sto3g.wfn"]),
    "wfx": ("w.wfx", ["water_sto3g_hf.wfx", "lih_cation_uhf.wfx"]),
}
MANY_SOURCES = {"xyz": "t.xyz", "sdf": "t.sdf", "mol2": "t.mol2", "pdb": "t.pdb"}

_BASE = {}
_GUARD = None
_SPY = []


def setup_worker():
    global _GUARD
    from sim import sched

    import iodata.api

    sched.MONITOR.install(common.REPO)
    warnings.simplefilter("ignore")
    _GUARD = canon.TableGuard()

    base = iodata.api.LineIterator

    class SpyLineIterator(base):
        def __init__(self, *args, **kwargs):  # (whatever signature the class has: the spy only takes note)
            super().__init__(*args, **kwargs)
            _SPY.append(self)

    iodata.api.LineIterator = SpyLineIterator


# ------------------------------------------------------------------------------------------------


class _PathLike:
    """A minimal os.PathLike (as os.DirEntry or py.path.local are)."""

    def __init__(self, path):
        self._p = path

    def __fspath__(self):
        return self._p

    def __str__(self):
        return self._p

    __repr__ = __str__


def selectable(name, api, fmt):
    from iodata.api import FORMAT_MODULES

    if fmt is not None:
        return fmt in FORMAT_MODULES and hasattr(FORMAT_MODULES[fmt], api)
    base = os.path.basename(name)
    for mod in FORMAT_MODULES.values():
        if any(fnmatch(base, p) for p in mod.PATTERNS) and hasattr(mod, api):
            return True
    return False


def natural_fmt(name):
    """(explicit fmt needed?, module name) for a corpus file name."""
    from iodata.api import FORMAT_MODULES

    if name.endswith(".json"):
        return "json_qcschema"
    base = os.path.basename(name)
    for mname, mod in FORMAT_MODULES.items():
        if any(fnmatch(base, p) for p in mod.PATTERNS):
            return mname
    return None


def source_bytes(src):
    """Bytes the writer left (before faults) and, for iodata-written files, raw-write offsets."""
    if src["kind"] == "corpus":
        return common.corpus_bytes(src["file"]), None
    key = common.jdump(src)
    if key not in _BASE:
        import iodata

        disk = seams.SimDisk(buffer_size=src.get("buffer_size", 8192))
        objs = [gen.build(r) for r in src["objs"]]
        with seams.Installed(disk), warnings.catch_warnings():
            warnings.simplefilter("ignore")
            if src.get("many"):
                iodata.dump_many(iter(objs), src["filename"], fmt=src["fmt"])
            else:
                iodata.dump_one(objs[0], src["filename"], fmt=src["fmt"], allow_changes=True)
        offs = [e["off"] + e["n"] for e in disk.events_for(src["filename"], ("rwrite",))]
        _BASE[key] = (disk.get(src["filename"]), sorted(set([0] + offs)))
        if _GUARD is not None and _GUARD.changed():
            _GUARD.restore()  # a writer that edits module tables is C16's subject, not the reader's
    return _BASE[key]


def _consume(gen_, mode, j, frames, on_frame=None):
    """The caller side of load_many.  Appends to frames; returns True when the generator finished."""
    if mode == "list":
        frames.extend(list(gen_))
        return True
    if mode == "exhaust":
        for d in gen_:
            frames.append(d)
            if on_frame is not None:
                on_frame(len(frames) - 1)
        return True
    # abandon after j frames (j == 0: the generator is never started)
    if j > 0:
        for d in gen_:
            frames.append(d)
            if len(frames) >= j:
                break
    if mode == "close":
        gen_.close()
    return False


def run_load(name, fmt, api, data, consume=("exhaust", 0), knobs=None, budget=None, cover=None, endlines=None):
    """Load `data` stored under `name` through the real API.  Returns a record."""
    import iodata

    knobs = knobs or {}
    disk = seams.SimDisk(chunk_size=knobs.get("chunk_size"), encoding=knobs.get("encoding", "utf-8"),
                         log_events=False, short_read=knobs.get("short_read"))
    disk.put(name, data)
    del _SPY[:]
    rec = {"exc": None, "frames": [], "finished": None, "warnings": []}
    import numpy as _np

    # environment knob: the application traps floating-point errors (np.seterr(all="raise")), as the iodata CLI itself does
    fpctx = _np.errstate(all="raise") if knobs.get("fperr") == "raise" else _np.errstate()
    with seams.Installed(disk), seams.MemPoison(knobs.get("mem")), fpctx, warnings.catch_warnings(record=True) as wlist, Steps(budget, cover=cover) as st:
        # environment knob: the caller runs with warnings promoted to errors (python -W error)
        warnings.simplefilter("error" if knobs.get("warnings") == "error" else "always")
        try:
            arg = name
            if knobs.get("pathlib") == "pathlike" and selectable(name, api, fmt):
                # any os.PathLike (os.DirEntry, py.path.local, ...) names a file; used where a format can be selected
                # (FileFormatError accepts only str and pathlib.Path as file argument on the unchanged tree)
                arg = _PathLike(name)
            elif knobs.get("pathlib"):
                import pathlib

                arg = pathlib.Path(name)  # a legal way to name the file
            if api == "load_one" and knobs.get("in_thread"):
                from checks.c08 import _in_thread

                rec["frames"] = [_in_thread(lambda: iodata.load_one(arg, fmt=fmt))]
                rec["finished"] = True
            elif api == "load_one":
                rec["frames"] = [iodata.load_one(arg, fmt=fmt)]
                rec["finished"] = True
            else:
                g = iodata.load_many(arg, fmt=fmt)
                try:
                    on_frame = None
                    if endlines is not None:
                        def on_frame(i):
                            lit_ = _SPY[-1] if _SPY else None
                            endlines.append(getattr(lit_, "lineno", None))
                    elif knobs.get("interleave"):
                        # between two frames the caller loads another (intact) file: the trajectory's frames, error
                        # and line number must be what they are without that
                        disk.put("_other/inner.xyz", b"2\ninner\nH 0.0 0.0 0.0\nH 0.0 0.0 0.7\n")

                        def on_frame(i):
                            try:
                                iodata.load_one("_other/inner.xyz")
                            except Exception as exc_:  # noqa: BLE001 - judged below
                                rec.setdefault("inner_errors", []).append(f"{type(exc_).__name__}: {exc_}")
                    rec["finished"] = _consume(g, consume[0], consume[1], rec["frames"], on_frame)
                finally:
                    g = None  # "drop": the last reference goes away here
        except BaseException as exc:  # noqa: BLE001 - judged by the oracle
            rec["exc"] = exc
    gc.collect()
    if rec["exc"] is not None:
        try:
            str(rec["exc"])
        except Exception as exc2:  # noqa: BLE001 - an error whose own message cannot be produced
            rec["str_fails"] = f"{type(exc2).__name__}: {exc2}"
    rec["steps"] = st.steps
    rec["short_reads"] = disk.short_reads[0]
    rec["warnings"] = [type(x.message).__name__ for x in wlist]
    rec["warning_msgs"] = [f"{type(x.message).__name__}:{str(x.message).rsplit(' (', 1)[0]}" for x in wlist]
    rec["handles_open"] = len(disk.open_handles())
    hs = [h for h in disk.handles if isinstance(h, seams.SimTextR) and not str(h.path).startswith("_other/")]
    rec["nlines"] = sum(h.nlines for h in hs)
    rec["neof"] = sum(h.neof + h.nerr for h in hs)
    rec["nopen"] = len(hs)
    rec["nread"] = sum(h.nread for h in hs)
    rec["bulk_after_lines"] = sum(getattr(h, "bulk_after_lines", 0) for h in hs)
    # how many lines the file really has (only "\n" ends a line of a text file), for readers that take the file in bulk
    rec["real_lines"] = data.count(b"\n") + (1 if data and not data.endswith(b"\n") else 0)
    lit = _SPY[-1] if _SPY else None
    if knobs.get("interleave"):
        lit = None  # (the most recent iterator may belong to the file loaded in between)
    rec["lit"] = None
    if lit is not None and hasattr(lit, "lineno") and hasattr(lit, "stack"):
        rec["lit"] = (lit.lineno, len(lit.stack))
    return rec


# ------------------------------------------------------------------------------------------------
# shape oracle

DECLARED = "declared"


def shape_problems(d):
    """Returns list of (group, relation-key, text).  group 'declared' = promised by IOData's own
    validators; 'cross' = cross-object relations that have no validator."""
    out = []
    natom = d.natom
    for attr, tail in (("atcoords", (3,)), ("_atcorenums", ()), ("atfrozen", ()), ("atgradient", (3,)),
                       ("atmasses", ()), ("atnums", ())):
        v = getattr(d, attr)
        if v is not None:
            if not isinstance(v, np.ndarray) or v.shape != (natom, *tail):
                out.append((DECLARED, attr.lstrip("_"), f"{attr} shape {getattr(v, 'shape', None)} vs natom {natom}"))
    for attr, ncol in (("bonds", 3), ("cellvecs", 3), ("extcharges", 4)):
        v = getattr(d, attr)
        if v is not None and (v.ndim != 2 or v.shape[1] != ncol):
            out.append((DECLARED, attr, f"{attr} shape {v.shape}"))
    if d.athessian is not None and d.athessian.ndim != 2:
        out.append((DECLARED, "athessian.ndim", f"athessian ndim {d.athessian.ndim}"))
    mo = d.mo
    if mo is not None:
        norb = mo.norb
        for attr in ("occs", "energies", "irreps", "occs_aminusb"):
            v = getattr(mo, attr)
            if v is not None and len(v) != norb:
                out.append((DECLARED, f"mo.{attr}", f"mo.{attr} length {len(v)} vs norb {norb}"))
        if mo.coeffs is not None and (mo.coeffs.ndim != 2 or mo.coeffs.shape[1] != norb):
            out.append((DECLARED, "mo.coeffs", f"mo.coeffs shape {mo.coeffs.shape} vs norb {norb}"))
    ob = d.obasis
    nbasis = None
    if ob is not None:
        for i, sh in enumerate(ob.shells):
            nc = sh.coeffs.shape
            if sh.coeffs.ndim != 2 or len(sh.angmoms) != nc[1] or len(sh.kinds) != nc[1] or len(sh.exponents) != nc[0]:
                out.append((DECLARED, "shell", f"shell {i}: angmoms {len(sh.angmoms)} kinds {len(sh.kinds)} exps {len(sh.exponents)} coeffs {nc}"))
        try:
            nbasis = ob.nbasis
        except Exception as exc:  # noqa: BLE001
            out.append(("cross", "obasis.nbasis computable", f"obasis.nbasis raises {type(exc).__name__}"))
    # cross-object relations
    if mo is not None and mo.coeffs is not None and nbasis is not None and mo.coeffs.ndim == 2:
        rows = mo.coeffs.shape[0] // 2 if mo.kind == "generalized" else mo.coeffs.shape[0]
        if rows != nbasis:
            out.append(("cross", "mo.coeffs rows=nbasis", f"mo.coeffs rows {rows} vs obasis.nbasis {nbasis}"))
    if nbasis is not None:
        for k, v in (d.one_rdms or {}).items():
            if isinstance(v, np.ndarray) and v.shape != (nbasis, nbasis):
                out.append(("cross", "one_rdms=nbasis^2", f"one_rdms[{k}] shape {v.shape} vs nbasis {nbasis}"))
    if natom is not None:
        for k, v in (d.atcharges or {}).items():
            if isinstance(v, np.ndarray) and v.shape != (natom,):
                out.append(("cross", "atcharges=natom", f"atcharges[{k}] shape {v.shape} vs natom {natom}"))
        # arrays that the loaders document as per-atom, stored in the free-form dictionaries
        for dname, keys in (("atffparams", ("attypes", "restypes", "resnums", "resnames")),
                            ("extra", ("occupancies", "bfactors", "chainids", "velocities"))):
            dd = getattr(d, dname) or {}
            for key in keys:
                v = dd.get(key)
                if isinstance(v, (np.ndarray, tuple, list)) and len(v) != natom:
                    out.append(("cross", f"{dname}.{key}=natom", f"{dname}[{key}] has length {len(v)} vs natom {natom}"))
        if d.athessian is not None and d.athessian.shape != (3 * natom, 3 * natom):
            out.append(("cross", "athessian=3Nx3N", f"athessian shape {d.athessian.shape} vs natom {natom}"))
    return out


# ------------------------------------------------------------------------------------------------


def _s(exc):
    """str(exc), also when the exception's own __str__ raises."""
    try:
        return str(exc)
    except Exception:  # noqa: BLE001
        return "<exception str() failed>"


def _v(cls, msg, trace, extra=""):
    src = trace["source"]
    sname = src.get("file") or f"dumped:{src.get('fmt')}"
    fmtmod = natural_fmt(trace["name"]) if trace.get("fmt") is None else trace["fmt"]
    sig = f"{cls}|{fmtmod}|{trace['api']}|{extra}"
    return {"cls": cls, "sig": sig, "msg": f"{msg} [source {sname}, stored as {trace['name']}]", "trace": copy.deepcopy(trace)}


def judge(trace, rec):
    out = []
    exc = rec["exc"]
    et = type(exc).__name__ if exc is not None else None
    name, fmt, api = trace["name"], trace.get("fmt"), trace["api"]
    if isinstance(exc, (StepBudgetExceeded, seams.SimLiveness)):
        out.append(_v("liveness", f"no termination within the step budget: {exc}", trace))
        return out
    if rec.get("str_fails"):
        # the error exists but cannot tell what it is about: printing it (as the interpreter does for an uncaught
        # exception) raises in turn
        out.append(_v("error_message_unprintable", f"{et} was raised but str() of it raises {rec['str_fails']}", trace, et))
        return out
    sel = selectable(name, api, fmt)
    if exc is not None:
        if et == "FileFormatError":
            if sel:
                out.append(_v("wrong_exception", f"FileFormatError although a format module is selectable: {exc}", trace, "ffe"))
            if rec["nopen"]:
                out.append(_v("touched_before_error", "file opened although no format could be selected", trace))
        elif et == "LoadError":
            if not sel:
                out.append(_v("wrong_exception", "LoadError although no format module is selectable", trace, "le"))
            if name not in _s(exc):
                out.append(_v("message_no_filename", f"LoadError message does not name the file: {_s(exc)[:120]}", trace))
            ln = getattr(exc, "lineno", None)
            seen = rec["nlines"] + rec["neof"]
            if rec.get("nread", 0) > 0:
                # a reader that takes (part of) the file in one piece: all that can be said is that the file has that many lines
                seen = max(seen, rec["real_lines"] + 1)
            if ln is not None and not (0 <= ln <= seen):
                out.append(_v("lineno_out_of_range", f"LoadError lineno {ln} but only {seen} lines " + ("exist in the file" if rec.get("nread", 0) > 0 else "were pulled from the file"), trace))
            elif ln is not None and ln > 0 and rec.get("bulk_after_lines", 0) > 0:
                # line-wise parsing followed by a bulk read() of the rest: the reported line cannot be the last one read
                out.append(_v("lineno_ignores_bulk_read", f"LoadError reports line {ln} but the rest of the file was consumed by a bulk read() after {rec['nlines']} lines", trace))
            elif ln is not None and rec["lit"] is not None and rec["nopen"] == 1 and ln != rec["lit"][0]:
                # every LoadError in iodata takes its line number from the LineIterator: it must be the
                # iterator's position when the error was raised (nothing is read afterwards)
                out.append(_v("lineno_mismatch", f"LoadError reports line {ln} but the reader stood at line {rec['lit'][0]}", trace))
        else:
            cause = type(exc.__cause__).__name__ if exc.__cause__ is not None else None
            out.append(_v("wrong_exception", f"{et} escaped from {api}: {_s(exc)[:160]}", trace, f"{et}/{cause}"))
    else:
        cons = trace.get("consume", ["exhaust", 0])
        never_started = api == "load_many" and cons[0] in ("close", "drop") and cons[1] == 0
        if not sel and not never_started:  # (a generator that is never started cannot report anything)
            out.append(_v("missing_error", "load succeeded although no format module is selectable", trace))
    if rec["lit"] is not None and rec["nopen"] == 1 and not rec.get("nread", 0):
        lineno, nstack = rec["lit"]
        if lineno != rec["nlines"] + rec["neof"] - nstack:
            out.append(_v("lineno_drift", f"LineIterator.lineno {lineno} != {rec['nlines']}+{rec['neof']} pulled - {nstack} pushed back", trace))
    if rec["handles_open"]:
        how = trace.get("consume", ["exhaust", 0])[0] if api == "load_many" else "return"
        out.append(_v("handle_leak", f"{rec['handles_open']} file handle(s) still open after {api} ({how}, {et})", trace, how))
    for i, d in enumerate(rec["frames"]):
        try:
            probs = shape_problems(d)
        except Exception as exc2:  # noqa: BLE001
            probs = [("declared", "inspect", f"object not inspectable: {type(exc2).__name__}: {exc2}")]
        for group, key, text in probs:
            cls = "shape_declared" if group == DECLARED else "shape_cross"
            out.append(_v(cls, f"frame {i}: {text}", trace, key))
    if _GUARD is not None and _GUARD.changed():
        changed = _GUARD.changed(tables_only=True)  # memo caches / scratch state are reset, not judged here
        if changed:
            out.append(_v("module_table_changed", "; ".join(changed[:3]), trace))
        _GUARD.restore()
    return out


def budget_for(src, name, fmt, api, data0):
    key = ("budget", common.jdump(src), api, fmt)
    if key not in _BASE:
        rec = run_load(name, fmt, api, data0)
        _BASE[key] = rec["steps"]
    return max(20 * _BASE[key], 500_000)


def _baseline_task(task):
    src = {"kind": "corpus", "file": task["file"]}
    data0, _ = source_bytes(src)
    out = {}
    for api in task["apis"]:
        rec = run_load(task["file"], task["fmt"], api, data0)
        out[api] = rec["steps"]
    return {"file": task["file"], "fmt": task["fmt"], "steps": out}


def execute(trace):
    data0, _raw = source_bytes(trace["source"])
    data = faults.apply_all(data0, trace.get("faults", []))
    budget = budget_for(trace["source"], trace["base_name"], trace.get("base_fmt"), trace["api"], data0)
    rec = run_load(trace["name"], trace.get("fmt"), trace["api"], data, tuple(trace.get("consume", ["exhaust", 0])),
                   trace.get("knobs"), budget)
    return judge(trace, rec) + ((judge_interleaved(trace, rec, data, budget) + judge_granularity(trace, rec, data, budget)) if trace.get("knobs") else [])


# ------------------------------------------------------------------------------------------------
# planning


def corpus_sources(tier):
    out = []
    for name in common.corpus_files():
        mod = natural_fmt(name)
        if mod is None:
            continue
        size = os.path.getsize(os.path.join(common.DATA, name))
        if tier == "quick" and (name in SLOW or size > 300_000):
            continue
        from iodata.api import FORMAT_MODULES

        apis = [a for a in ("load_one", "load_many") if hasattr(FORMAT_MODULES[mod], a)]
        fmt = "json_qcschema" if name.endswith(".json") else None
        out.append({"file": name, "mod": mod, "fmt": fmt, "apis": apis, "size": size})
        if name in ALT_FORMATS:
            amod = ALT_FORMATS[name]
            out.append({"file": name, "mod": amod, "fmt": amod, "size": size,
                        "apis": [a for a in ("load_one", "load_many") if hasattr(FORMAT_MODULES[amod], a)]})
    return out


def plan(tier, seed, args):
    rng = common.rng_for(seed, ID, "plan")
    tasks = []
    srcs = corpus_sources(tier)
    # (a) enumeration of line-boundary crash prefixes
    per = 250
    run = 0
    stride = 1 if tier == "thorough" else None
    total_lines = 0
    for s in srcs:
        data = common.corpus_bytes(s["file"])
        nl = len(data.splitlines())
        total_lines += nl
        s["nlines"] = nl
    target = 4200 if tier == "quick" else None
    # fault-free baselines (logical steps) once, in workers; forked check workers inherit them
    from sim import pool

    for res in pool.run_tasks(_baseline_task, [{"file": s["file"], "fmt": s["fmt"], "apis": s["apis"]} for s in srcs],
                              setup=setup_worker, workers=args.workers, batch=1, timeout=600):
        for api, steps in res["steps"].items():
            _BASE[("budget", common.jdump({"kind": "corpus", "file": res["file"]}), api, res["fmt"])] = steps
    if args.only == "seeded":
        srcs_enum = []
    else:
        srcs_enum = srcs
    for s in srcs_enum:
        for api in s["apis"]:
            if s["file"] in SLOW:
                cuts = sorted(set(rng.sample(range(s["nlines"] + 1), 150)))
            elif tier == "thorough":
                if s["nlines"] <= 6000:
                    cuts = list(range(s["nlines"] + 1))
                else:
                    # the five largest files (11k..35k lines, every prefix load is O(size)): 2000 seeded cut points each
                    cuts = sorted(set(rng.sample(range(s["nlines"] + 1), 2000)) | {0, s["nlines"]})
            else:
                # quick: all cuts of small files, seeded sample of the larger ones
                k = max(8, int(target * (s["nlines"] + 1) / (2 * total_lines)))
                k = min(s["nlines"] + 1, max(k, 40 if s["nlines"] < 400 else 25))
                cuts = sorted(set(rng.sample(range(s["nlines"] + 1), k)) | {0, s["nlines"]})
            for i in range(0, len(cuts), per):
                tasks.append({"run": run, "seed": seed, "tier": tier, "mode": "enum", "file": s["file"],
                              "fmt": s["fmt"], "api": api, "cuts": cuts[i:i + per]})
                run += 1
    # (a') byte-offset crash prefixes of the small files: every offset (thorough, files <= 4000 bytes) or every
    # 4th offset with a seeded phase (quick, files <= 1200 bytes)
    limit, stride = (1200, 4) if tier == "quick" else (4000, 1)
    for s in srcs_enum:
        if s["size"] > limit or s["file"] in SLOW:
            continue
        phase = rng.randrange(stride)
        offs_b = list(range(phase, s["size"] + 1, stride))
        for api in s["apis"]:
            for i in range(0, len(offs_b), 400):
                tasks.append({"run": run, "seed": seed, "tier": tier, "mode": "enum", "file": s["file"], "fmt": s["fmt"],
                              "api": api, "cuts": [], "byte_cuts": offs_b[i:i + 400]})
                run += 1
    # (a'') announced sizes: every "N= <count>" of the formatted-checkpoint files (and the count tokens int_nudge finds in
    # the other small files) becomes a smaller one - the arrays that follow then hold more, or another number of,
    # elements than announced
    for s in srcs_enum:
        if s["size"] > (12_000 if tier == "quick" else 120_000) or s["file"] in SLOW:
            continue
        data = common.corpus_bytes(s["file"])
        ncount = data.count(b"N=")
        if not ncount:
            continue
        fl = [{"kind": "int_nudge", "i": i, "how": how, "aim": "count"} for i in range(min(ncount, 80))
              for how in (("dec", "drop1of2") if tier == "quick" else ("dec", "minus2", "drop1of2", "drop1of3", "inc"))]
        for api in s["apis"][:1]:
            for i in range(0, len(fl), 10):
                tasks.append({"run": run, "seed": seed, "tier": tier, "mode": "enum", "file": s["file"], "fmt": s["fmt"],
                              "api": api, "cuts": [], "faults": fl[i:i + 10]})
                run += 1
    if args.only == "enum":
        return tasks
    # (b) seeded storage-fault runs
    n = args.runs or (320 if tier == "quick" else 3000)
    for i in range(n):
        tasks.append({"run": run, "seed": seed, "tier": tier, "mode": "seeded", "n": 16 if tier == "quick" else 24})
        run += 1
    return tasks


def _rand_source(rng, tier):
    srcs = corpus_sources(tier)
    r = rng.random()
    if r < 0.72:
        small = [s for s in srcs if s["size"] <= 150_000 and s["file"] not in SLOW]
        s = rng.choice(small if rng.random() < 0.93 else srcs)
        return {"kind": "corpus", "file": s["file"]}, s["file"], s["fmt"], s["apis"]
    from iodata.api import FORMAT_MODULES

    if r < 0.88:
        fmt = rng.choice(sorted(DUMP_SOURCES))
        fname, files = DUMP_SOURCES[fmt]
        src = {"kind": "dumped", "fmt": fmt, "filename": fname, "many": False,
               "objs": [{"kind": "corpus", "file": rng.choice(files), "mods": []}],
               "buffer_size": rng.choice([1, 64, 8192])}
    else:
        fmt = rng.choice(sorted(MANY_SOURCES))
        fname = MANY_SOURCES[fmt]
        nf = rng.randint(1, 5)
        src = {"kind": "dumped", "fmt": fmt, "filename": fname, "many": True,
               "objs": [gen.random_mol(rng, with_bonds=fmt in ("sdf", "mol2"), with_charges=fmt == "mol2", pdb=fmt == "pdb")
                        for _ in range(nf)],
               "buffer_size": rng.choice([1, 64, 8192])}
    apis = [a for a in ("load_one", "load_many") if hasattr(FORMAT_MODULES[fmt], a)]
    return src, fname, ("json_qcschema" if fmt == "json_qcschema" else None), apis


def gen_trace(rng, tier):
    src, base_name, base_fmt, apis = _rand_source(rng, tier)
    data0, raw_offs = source_bytes(src)
    api = rng.choice(apis)
    nf = rng.choice([1, 1, 1, 2, 3])
    kinds = rng.sample(faults.KINDS, rng.randint(3, len(faults.KINDS)))  # swarm: enabled kinds of this run
    fl = []
    data = data0
    for _ in range(nf):
        f = faults.random_fault(rng, data, rng.choice(kinds), raw_offs)
        fl.append(f)
        data = faults.apply(data, f)
    name, fmt = base_name, base_fmt
    r = rng.random()
    if r < 0.08:
        name = rng.choice(MISNAMES)
        fmt = None
    elif r < 0.14:
        from iodata.api import FORMAT_MODULES

        fmt = rng.choice(sorted(FORMAT_MODULES) + ["nosuchformat"])
    elif r < 0.30 and base_fmt is None:
        fmt = natural_fmt(base_name)  # explicit selection of the right format
    elif r < 0.36:
        # a file name with characters that mean something to str.format, % formatting, shells and wildcards
        odd = rng.choice(["b{r}ace ", "100%s", "{0}", "a[1]*", "q'\"x "]) + base_name
        if natural_fmt(odd) == natural_fmt(base_name):
            name = odd
    trace = {"source": src, "faults": fl, "name": name, "fmt": fmt, "api": api, "base_name": base_name,
             "base_fmt": base_fmt,
             "consume": [rng.choice(["exhaust", "list", "close", "drop"]), rng.randint(0, 3)],
             "knobs": {"chunk_size": rng.choice([None, None, 16, 512]),
                       "encoding": rng.choice(["utf-8"] * 6 + ["ascii", "latin-1"]),
                       "warnings": "error" if rng.random() < 0.12 else "always",
                       "pathlib": rng.choice([False] * 8 + [True, "pathlike"]), "in_thread": rng.random() < 0.08,
                       "fperr": "raise" if rng.random() < 0.1 else None,
                       "interleave": api == "load_many" and rng.random() < 0.25}}
    if rng.random() < 0.2:
        # the storage delivers the bytes in small portions (pipe, network file system): at most n bytes per read call
        trace["knobs"]["short_read"] = rng.choice([1, 2, 3, 7, 61, 1000, 8191])
    if fmt is not None and not selectable(name, api, fmt):
        trace["api"] = api  # kept: FileFormatError expected
    return trace


def _record(stats, trace, rec, data, data0, viols):
    et = type(rec["exc"]).__name__ if rec["exc"] is not None else "object"
    stats.inc(f"outcome.{et}")
    stats.inc("steps", rec["steps"])
    for f in trace.get("faults", []):
        stats.inc(f"fault.{f['kind']}" + (f".{f['at']}" if f["kind"] == "crash_prefix" and "at" in f else ""))
    if trace["name"] != trace["base_name"]:
        stats.inc("fault.misnamed")
    if data != data0 or trace["name"] != trace["base_name"]:
        src = trace["source"]
        stats.add("nontrivial", common.short(repr((src.get("file") or src.get("fmt"), trace["api"], trace["name"], common.sha(data)))))
    exc = rec["exc"]
    if exc is not None and et == "LoadError":
        cause = exc.__cause__
        tb = cause.__traceback__ if cause is not None else exc.__traceback__
        site = "?"
        while tb is not None:
            fn = tb.tb_frame.f_code.co_filename
            if "/iodata/" in fn:
                site = f"{os.path.basename(fn)}:{tb.tb_lineno}"
            tb = tb.tb_next
        stats.add("error_sites", f"{site}:{type(cause).__name__ if cause is not None else 'LoadError'}")
        if isinstance(cause, StopIteration) or "File ended" in _s(exc):
            stats.inc("probe.eof_inside_parser")
        if isinstance(cause, MemoryError):
            stats.inc("probe.failing_allocation")
    if trace["api"] == "load_many":
        stats.inc(f"probe.consume_{trace.get('consume', ['exhaust'])[0]}")
        if rec["frames"] and exc is not None:
            stats.inc("probe.error_after_frames_yielded")
    if rec["warnings"]:
        stats.inc("probe.runs_with_warnings")


def run_task(task):
    stats = Stats()
    viols = []
    dig = []
    n = 0
    sample = None
    tier = task["tier"]
    if task["mode"] == "enum":
        src = {"kind": "corpus", "file": task["file"]}
        data0, _ = source_bytes(src)
        ls = data0.splitlines(keepends=True)
        offs = [0]
        for l in ls:
            offs.append(offs[-1] + len(l))
        name, fmt, api = task["file"], task["fmt"], task["api"]
        budget = budget_for(src, name, fmt, api, data0)
        cut_list = [(offs[cut], "line", cut) for cut in task["cuts"]] + [(b, "byte", b) for b in task.get("byte_cuts", [])]
        for nbytes, at, cut in cut_list:
            trace = {"source": src, "faults": [{"kind": "crash_prefix", "n": nbytes, "at": at}], "name": name,
                     "fmt": fmt, "api": api, "base_name": name, "base_fmt": fmt, "consume": ["exhaust", 0],
                     "knobs": {}}
            data = data0[:nbytes]
            rec = run_load(name, fmt, api, data, ("exhaust", 0), None, budget)
            n += 1
            vs = judge(trace, rec)
            viols.extend(vs)
            _record(stats, trace, rec, data, data0, vs)
            dig.append((at, cut, type(rec["exc"]).__name__, _s(rec["exc"])[:60], len(rec["frames"]), rec["steps"]))
        for f in task.get("faults", []):
            trace = {"source": src, "faults": [f], "name": name, "fmt": fmt, "api": api, "base_name": name, "base_fmt": fmt,
                     "consume": ["exhaust", 0], "knobs": {}}
            data = faults.apply(data0, f)
            if data == data0:
                continue
            rec = run_load(name, fmt, api, data, ("exhaust", 0), None, budget)
            n += 1
            vs = judge(trace, rec)
            viols.extend(vs)
            _record(stats, trace, rec, data, data0, vs)
            dig.append(("count", f["i"], f["how"], type(rec["exc"]).__name__, _s(rec["exc"])[:60], len(rec["frames"]), rec["steps"]))
        if task.get("faults"):
            stats.add("count_enumerated_sources", f"{name}:{api}")
        stats.add("enumerated_sources", f"{name}:{api}")
        if task.get("byte_cuts"):
            stats.add("byte_enumerated_sources", f"{name}:{api}")
        if task["run"] % 29 == 0:
            sample = {"mode": "crash-prefix enumeration", "file": name, "api": api, "cuts_in_task": len(task["cuts"]),
                      "first_cut_lines": task["cuts"][:5], "last_outcome": dig[-1][1] if dig else None}
    else:
        rng = common.rng_for(task["seed"], ID, task["run"])
        for _i in range(task["n"]):
            trace = gen_trace(rng, tier)
            data0, _ = source_bytes(trace["source"])
            data = faults.apply_all(data0, trace["faults"])
            budget = budget_for(trace["source"], trace["base_name"], trace["base_fmt"], trace["api"], data0)
            rec = run_load(trace["name"], trace["fmt"], trace["api"], data, tuple(trace["consume"]), trace["knobs"], budget)
            n += 1
            vs = judge(trace, rec)
            vs.extend(judge_interleaved(trace, rec, data, budget))
            vs.extend(judge_granularity(trace, rec, data, budget))
            if trace["knobs"].get("short_read"):
                stats.inc("fault.short_read")
                stats.inc("short_read_calls", rec.get("short_reads", 0))
            viols.extend(vs)
            _record(stats, trace, rec, data, data0, vs)
            dig.append((common.short(data), type(rec["exc"]).__name__, _s(rec["exc"])[:60], len(rec["frames"]), rec["steps"]))
            if sample is None and task["run"] % 23 == 0 and trace["faults"]:
                sample = {"mode": "seeded storage faults", "source": trace["source"].get("file") or trace["source"]["fmt"],
                          "faults": trace["faults"], "stored_as": trace["name"], "fmt": trace["fmt"], "api": trace["api"],
                          "consume": trace["consume"], "knobs": trace["knobs"],
                          "outcome": type(rec["exc"]).__name__ if rec["exc"] else f"{len(rec['frames'])} object(s)",
                          "message": _s(rec["exc"])[:200] if rec["exc"] else None, "steps": rec["steps"]}
    # odigest: outcomes only (the logical step count of the QCSchema parser depends on PYTHONHASHSEED
    # because it iterates over Python sets; the launcher pins the hash seed)
    return {"n": n, "digest": common.short(repr(dig)), "odigest": common.short(repr([d[:-1] for d in dig])),
            "violations": viols, "stats": stats.export(), "sample": sample}


# ------------------------------------------------------------------------------------------------


def _alloc_failed(rec):
    e = rec["exc"]
    while e is not None:
        if isinstance(e, MemoryError):
            return True
        e = e.__cause__ or e.__context__
    return False


def judge_interleaved(trace, rec, data, budget):
    """A load_many whose consumer loaded another file between two frames: same frames / error / line as without."""
    if not trace["knobs"].get("interleave") or trace["api"] != "load_many" or tuple(trace["consume"])[0] != "exhaust":
        return []
    plain = run_load(trace["name"], trace["fmt"], trace["api"], data, tuple(trace["consume"]), {**trace["knobs"], "interleave": False}, budget)
    out = []
    if _alloc_failed(rec) or _alloc_failed(plain):
        return out  # (see judge_granularity)
    a = ([canon.iodata_digest(d) for d in rec["frames"]], type(rec["exc"]).__name__, getattr(rec["exc"], "lineno", None))
    b = ([canon.iodata_digest(d) for d in plain["frames"]], type(plain["exc"]).__name__, getattr(plain["exc"], "lineno", None))
    if a != b:
        out.append(_v("outcome_depends_on_interleaved_load", f"{len(a[0])} frames / {a[1]} at line {a[2]} when another file is loaded between the frames, "
                      f"{len(b[0])} frames / {b[1]} at line {b[2]} otherwise", trace, "interleave"))
    if rec.get("inner_errors"):
        out.append(_v("outcome_depends_on_interleaved_load", f"the intact file loaded between two frames was rejected: {rec['inner_errors'][0][:120]}", trace, "inner"))
    return out


def judge_granularity(trace, rec, data, budget):
    """How the storage portions the bytes (short reads, the text layer's chunk size) is invisible: same frames,
    same error with the same message and line as with one full read.  Only for content that decodes cleanly in
    the run's encoding - where CPython's decoder meets a bad byte depends on the portions, not on iodata."""
    kn = trace["knobs"]
    if not (kn.get("short_read") or kn.get("chunk_size")) or kn.get("interleave"):
        return []
    try:
        data.decode(kn.get("encoding", "utf-8"))
    except UnicodeDecodeError:
        return []
    plain = run_load(trace["name"], trace["fmt"], trace["api"], data, tuple(trace["consume"]), {**kn, "short_read": None, "chunk_size": None}, budget)

    def view(r):
        e = r["exc"]
        return ([canon.iodata_digest(d) for d in r["frames"]], type(e).__name__, _s(e)[:300] if e is not None else None,
                getattr(e, "lineno", None), r["finished"], sorted(r["warning_msgs"]))
    a, b = view(rec), view(plain)
    if _alloc_failed(rec) or _alloc_failed(plain):
        # a failing allocation depends on what else the process holds at that moment (the first run's traceback
        # keeps its arrays alive while the second one runs under the same address-space limit): not comparable
        return []
    if a != b:
        what = "frames" if a[0] != b[0] else "error" if a[1:4] != b[1:4] else "warnings"
        return [_v("outcome_depends_on_read_portions", f"{what} differ: {len(a[0])} frame(s) / {a[1]} {a[2]!r} at line {a[3]} with short_read={kn.get('short_read')} "
                   f"chunk_size={kn.get('chunk_size')}, {len(b[0])} frame(s) / {b[1]} {b[2]!r} at line {b[3]} with full reads", trace, what)]
    return []


def shrink(trace, still_fails):
    t = copy.deepcopy(trace)
    if len(t["faults"]) > 1:
        t["faults"] = shr.ddmin_list(t["faults"], lambda fs: still_fails({**t, "faults": fs}))
    # default knobs / consumption
    for key, val in (("knobs", {}), ("consume", ["exhaust", 0])):
        if t.get(key) != val:
            t2 = {**t, key: val}
            if still_fails(t2):
                t = t2
    # earlier cut
    for i, f in enumerate(t["faults"]):
        if f["kind"] == "crash_prefix" and f["n"] > 0:
            def test(n, i=i):
                t2 = copy.deepcopy(t)
                t2["faults"][i]["n"] = n
                t2["faults"][i]["at"] = "byte"
                return still_fails(t2)
            n = shr.shrink_int(f["n"], test)
            if n != f["n"]:
                t["faults"][i]["n"] = n
                t["faults"][i]["at"] = "byte"
    # additionally truncate the file after the interesting part (smaller input)
    data0, _ = source_bytes(t["source"])
    data = faults.apply_all(data0, t["faults"])
    if len(data) > 200 and not any(f["kind"] == "crash_prefix" for f in t["faults"]):
        def test2(n):
            return still_fails({**t, "faults": t["faults"] + [{"kind": "crash_prefix", "n": n, "at": "byte"}]})
        if test2(len(data)):
            n = shr.shrink_int(len(data), test2)
            if n < len(data):
                t["faults"] = t["faults"] + [{"kind": "crash_prefix", "n": n, "at": "byte"}]
    return t


def coverage_extra(stats, tier):
    return {
        "fault_kinds_configured": faults.KINDS + ["misnamed", "writer crash at raw-write boundary (crash_prefix.raw_write)"],
        "enumerated_sources": len(stats.s.get("enumerated_sources", [])),
        "error_sites_reached": len(stats.s.get("error_sites", [])),
        "exhaustive": False,
        "simulated_time": "logical steps (LINE events inside iodata)",
    }
