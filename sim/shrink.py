"""Delta debugging helpers over concrete traces."""

import copy


def ddmin_list(items, test, min_len=0):
    """Classic ddmin: smallest sublist (order kept) for which test(sublist) is True."""
    items = list(items)
    n = 2
    while len(items) > max(min_len, 0) and len(items) >= 1:
        chunk = max(1, len(items) // n)
        reduced = False
        i = 0
        while i < len(items):
            cand = items[:i] + items[i + chunk:]
            if len(cand) >= min_len and len(cand) < len(items) and test(cand):
                items = cand
                n = max(n - 1, 2)
                reduced = True
            else:
                i += chunk
        if not reduced:
            if chunk == 1:
                break
            n = min(len(items), n * 2)
    return items


def shrink_int(value, test, lo=0):
    """Smallest integer in [lo, value] for which test(v) holds (assumes test(value))."""
    best = value
    # try a few small values first, then bisect towards lo
    for cand in (lo, lo + 1, lo + 2):
        if cand < best and test(cand):
            return cand
    low, high = lo, best
    while low < high:
        mid = (low + high) // 2
        if test(mid):
            high = mid
        else:
            low = mid + 1
    return high if test(high) else best


def with_key(trace, key, value):
    t = copy.deepcopy(trace)
    t[key] = value
    return t
