"""Storage / crash fault model applied to the bytes a (crashed or finished) writer left on disk.

Every fault is a concrete JSON-able dict; apply() is a pure function of (bytes, fault).
"""

import re

KINDS = [
    "crash_prefix", "torn_tail", "lost_block", "dup_block", "swap_blocks",
    "line_del", "line_dup", "line_swap", "bitflip", "char_sub", "field_overwrite", "garbage_block", "line_blowup", "deep_nesting",
    "sep_insert", "int_nudge", "token_drop",
]

# characters that str.splitlines() treats as line boundaries although a text file does not (valid UTF-8)
SEPARATORS = ["\x0b", "\x0c", "\x1c", "\x1d", "\x1e", "\u0085", "\u2028", "\u2029"]
COUNT_RE = re.compile(rb"N=\s*(\d+)(?![\w.])")


class _Span:
    """Minimal stand-in for a match object (start/end/group)."""

    def __init__(self, a, b, g):
        self._a, self._b, self._g = a, b, g

    def start(self):
        return self._a

    def end(self):
        return self._b

    def group(self):
        return self._g


INT_RE = re.compile(rb"(?<![\w.+-])\d+(?![\w.])")

NUM_RE = re.compile(rb"(?<![A-Za-z_])[-+]?(?:\d+\.?\d*|\.\d+)(?:[eEdD][-+]?\d+)?")
TOKENS = ["abc", "1e999x", "--", "nan", "1e999", "-1", "0", "99999999", "123456789012345678901234567890",
          "1.5", "3", "2147483648", "*****", "0x1F", "1,5", "", "-0", "1e-400", "7e3",
          # text that means something to str.format / % formatting when it is echoed in a message
          "{", "{0}", "}", "%s", "{x!r}"]
GARBAGE_TOKENS = ["abc", "1e999x", "--", "*****", "x1", "{0}", "%s}"]


def _lines(data):
    return data.splitlines(keepends=True)


def apply(data, f):
    kind = f["kind"]
    if kind == "crash_prefix":
        return data[: f["n"]]
    if kind == "torn_tail":
        n, bs = f["n"], f["bs"]
        end = min(len(data) + bs, ((n // bs) + 1) * bs)
        fill = f.get("fill", "nul")
        if fill == "nul":
            pad = b"\0" * (end - n)
        elif fill == "stale":
            src = data[f.get("stale_off", 0):] or b"x"
            pad = (src * ((end - n) // len(src) + 1))[: end - n]
        else:
            pad = (fill.encode() * (end - n))[: end - n]
        return data[:n] + pad
    if kind in ("lost_block", "dup_block"):
        bs, i = f["bs"], f["i"]
        a, b = i * bs, min(len(data), (i + 1) * bs)
        if kind == "dup_block":
            return data[:b] + data[a:b] + data[b:]
        if f.get("mode", "hole") == "hole":
            return data[:a] + b"\0" * (b - a) + data[b:]
        return data[:a] + data[b:]
    if kind == "line_blowup":
        # one line becomes very long (a writer that lost its newlines)
        ls = _lines(data)
        i = f["i"]
        if i >= len(ls):
            return data
        body = ls[i].rstrip(b"\r\n") or b"0 "
        ls[i] = (body + b" ") * max(1, f["size"] // (len(body) + 1)) + b"\n"
        return b"".join(ls)
    if kind == "deep_nesting":
        # deeply nested brackets at some offset (recursion in recursive-descent parsers such as json)
        off = min(f["off"], len(data))
        return data[:off] + f["open"].encode() * f["depth"] + data[off:]
    if kind == "garbage_block":
        # a misdirected write: the block holds bytes that belong elsewhere (binary data, NULs, invalid UTF-8)
        import random

        bs, i = f["bs"], f["i"]
        a, b = i * bs, min(len(data), (i + 1) * bs)
        rnd = random.Random(f["seed"])
        junk = bytes(rnd.randrange(256) for _ in range(b - a)) if f.get("mode", "binary") == "binary" else \
            bytes(rnd.choice(b" \t\n0123456789.-+eEabcXYZ=[]@<>$") for _ in range(b - a))
        return data[:a] + junk + data[b:]
    if kind == "swap_blocks":
        bs, i, j = f["bs"], f["i"], f["j"]
        i, j = min(i, j), max(i, j)
        a1, b1 = i * bs, (i + 1) * bs
        a2, b2 = j * bs, min(len(data), (j + 1) * bs)
        return data[:a1] + data[a2:b2] + data[b1:a2] + data[a1:b1] + data[b2:]
    if kind in ("line_del", "line_dup", "line_swap"):
        ls = _lines(data)
        i = f["i"]
        if i >= len(ls):
            return data
        if kind == "line_del":
            del ls[i]
        elif kind == "line_dup":
            ls.insert(i, ls[i])
        else:
            j = f["j"]
            if j < len(ls):
                ls[i], ls[j] = ls[j], ls[i]
        return b"".join(ls)
    if kind == "bitflip":
        off = f["off"]
        if off >= len(data):
            return data
        return data[:off] + bytes([data[off] ^ (1 << f["bit"])]) + data[off + 1:]
    if kind == "char_sub":
        off = f["off"]
        if off >= len(data):
            return data
        return data[:off] + bytes([f["byte"]]) + data[off + 1:]
    if kind == "sep_insert":
        off = min(f["off"], len(data))
        sep = f["sep"].encode("utf-8")
        return data[:off] + sep + data[off + (1 if f.get("replace") and off < len(data) and data[off:off + 1] == b" " else 0):]
    if kind == "int_nudge":
        # an integer token (a count, an index) becomes another plausible integer
        toks = None
        if f.get("aim") in ("count", "traj_count"):
            # announced sizes: "N=   28" in formatted checkpoint files; for "traj_count" only the per-point blocks of an
            # optimisation / IRC trajectory ("... Results for each geome  R  N=  10")
            counts = []
            for mm in COUNT_RE.finditer(data):
                if f["aim"] == "traj_count":
                    ls_ = data.rfind(b"\n", max(0, mm.start() - 200), mm.start()) + 1
                    if b"geome" not in data[ls_: mm.start()]:
                        continue
                counts.append(_Span(mm.start(1), mm.end(1), mm.group(1)))
                if len(counts) > 4000:
                    break
            toks = counts or None
        if toks is None:
            toks = list(INT_RE.finditer(data[:400_000]))
        if not toks:
            return data
        m = toks[f["i"] % len(toks)]
        old = int(m.group())
        if f["how"].startswith("drop1of"):
            q = int(f["how"][7:])
            new = old - old // q if old % q == 0 else max(0, old - 1)  # one of q equal parts is gone
        else:
            new = {"dec": max(0, old - 1), "inc": old + 1, "half": old // 2, "double": old * 2, "minus2": max(0, old - 2), "third": old // 3,
                   "minus3": max(0, old - 3)}[f["how"]]
        txt = str(new).encode()
        if len(txt) < m.end() - m.start():
            txt = txt.rjust(m.end() - m.start())
        return data[: m.start()] + txt + data[m.end():]
    if kind == "token_drop":
        # the tail of a line is lost from some token on (a record written incompletely)
        ls = _lines(data)
        i = f["line"]
        if i >= len(ls):
            return data
        body = ls[i].rstrip(b"\r\n")
        eol = ls[i][len(body):]
        toks = list(re.finditer(rb"\S+", body))
        if len(toks) < 2:
            return data
        k = 1 + f["keep"] % (len(toks) - 1)
        ls[i] = body[: toks[k - 1].end()] + eol
        return b"".join(ls)
    if kind == "field_overwrite":
        ls = _lines(data)
        i = f["line"]
        if i >= len(ls):
            return data
        toks = list(NUM_RE.finditer(ls[i]))
        if not toks:
            return data
        m = toks[min(f["tok"], len(toks) - 1)]
        new = f["token"].encode("latin-1") if f.get("latin1") else f["token"].encode()
        if f.get("keep_width") and len(new) < m.end() - m.start():
            new = new.rjust(m.end() - m.start())
        ls[i] = ls[i][: m.start()] + new + ls[i][m.end():]
        return b"".join(ls)
    raise ValueError(f"unknown storage fault {kind}")


def apply_all(data, faults):
    for f in faults:
        data = apply(data, f)
    return data


def numeric_lines(data, limit=None):
    """Indices of lines holding at least one numeric token."""
    out = []
    for i, l in enumerate(_lines(data)):
        if NUM_RE.search(l):
            out.append(i)
            if limit and len(out) >= limit:
                break
    return out


def random_fault(rng, data, kind, raw_offsets=None):
    """Draw one concrete fault of the given kind for these bytes."""
    n = len(data)
    if kind == "crash_prefix":
        where = rng.choice(["line", "block", "byte", "raw"] if raw_offsets else ["line", "block", "byte"])
        if where == "raw":
            return {"kind": kind, "n": rng.choice(raw_offsets), "at": "raw_write"}
        if where == "line":
            ls = _lines(data)
            k = rng.randint(0, len(ls))
            return {"kind": kind, "n": sum(len(x) for x in ls[:k]), "at": "line"}
        if where == "block":
            bs = rng.choice([64, 512, 4096])
            return {"kind": kind, "n": min(n, bs * rng.randint(0, max(0, n // bs))), "at": f"block{bs}"}
        return {"kind": kind, "n": rng.randint(0, n), "at": "byte"}
    if kind == "torn_tail":
        bs = rng.choice([64, 512, 4096])
        return {"kind": kind, "n": rng.randint(0, n), "bs": bs, "fill": rng.choice(["nul", "nul", "stale", "x"]),
                "stale_off": rng.randint(0, max(0, n - 1))}
    if kind == "line_blowup":
        return {"kind": kind, "i": rng.randrange(max(1, len(_lines(data)))), "size": rng.choice([5_000, 70_000, 250_000])}
    if kind == "deep_nesting":
        return {"kind": kind, "off": rng.choice([0, 1, rng.randrange(max(1, n))]), "open": rng.choice(["[", "{\"a\":", "(", "[["]),
                "depth": rng.choice([50, 2000, 100_000])}
    if kind == "garbage_block":
        bs = rng.choice([16, 64, 512, 4096, 1 << 22])
        nb = max(1, (n + bs - 1) // bs)
        return {"kind": kind, "bs": bs, "i": rng.randrange(nb), "seed": rng.randrange(1 << 30), "mode": rng.choice(["binary", "binary", "texty"])}
    if kind in ("lost_block", "dup_block", "swap_blocks"):
        bs = rng.choice([64, 512, 4096])
        nb = max(1, (n + bs - 1) // bs)
        f = {"kind": kind, "bs": bs, "i": rng.randrange(nb)}
        if kind == "lost_block":
            f["mode"] = rng.choice(["hole", "missing"])
        if kind == "swap_blocks":
            f["j"] = rng.randrange(nb)
            if f["j"] == f["i"]:
                f["j"] = (f["i"] + 1) % nb
        return f
    if kind in ("line_del", "line_dup", "line_swap"):
        nl = max(1, len(_lines(data)))
        f = {"kind": kind, "i": rng.randrange(nl)}
        if kind == "line_swap":
            f["j"] = rng.randrange(nl)
        return f
    if kind == "bitflip":
        off = rng.randrange(max(1, n))
        if rng.random() < 0.5 and n:
            # aim at a digit
            for _ in range(20):
                o = rng.randrange(n)
                if 48 <= data[o] <= 57:
                    off = o
                    break
        return {"kind": kind, "off": off, "bit": rng.randrange(8)}
    if kind == "char_sub":
        return {"kind": kind, "off": rng.randrange(max(1, n)),
                "byte": rng.choice([0, 9, 10, 32, 45, 46, 48, 57, 65, 101, 127, 128, 195, 255, 0x7B, 0x7D, 0x25, 0x5C, 0x22, 0x27])}
    if kind == "sep_insert":
        return {"kind": kind, "off": rng.randrange(max(1, n)), "sep": rng.choice(SEPARATORS), "replace": rng.random() < 0.5}
    if kind == "int_nudge":
        return {"kind": kind, "i": rng.randrange(1 << 20),
                "how": rng.choice(["dec", "inc", "half", "double", "minus2", "third", "minus3"] + [f"drop1of{q}" for q in (2, 3, 4, 5, 6, 7)]),
                "aim": rng.choice(["count", "any", "traj_count"])}
    if kind == "token_drop":
        nls = numeric_lines(data)
        return {"kind": kind, "line": rng.choice(nls) if nls else 0, "keep": rng.randrange(8)}
    if kind == "field_overwrite":
        nls = numeric_lines(data)
        line = rng.choice(nls) if nls else 0
        return {"kind": kind, "line": line, "tok": rng.randrange(6), "token": rng.choice(TOKENS),
                "keep_width": rng.random() < 0.5}
    raise ValueError(kind)
