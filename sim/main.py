"""Entry point of all checks.  Started by /verif/check (never with `python -m`)."""

import os
import sys

HERE = os.path.dirname(os.path.abspath(__file__))
VERIF = os.path.dirname(HERE)
REPO = os.path.abspath(os.environ.get("VERIF_REPO", "/repo"))

# The working tree under test must be the one that gets imported.
sys.path.insert(0, VERIF)
sys.path.insert(0, REPO)
sys.dont_write_bytecode = True

USAGE = """usage: ./check <id> [--tier quick|thorough] [--replay FILE] [--runs N] [--workers N]
  ids: C07 C08 C09 C11 C12 C13 C16 C18 selftest-determinism selftest-mutants"""


def main(argv):
    if len(argv) < 1 or argv[0] in ("-h", "--help"):
        print(USAGE)
        return 2
    what = argv[0]
    import argparse

    ap = argparse.ArgumentParser(prog="check " + what)
    ap.add_argument("--tier", default=os.environ.get("VERIF_TIER", "quick"), choices=["quick", "thorough"])
    ap.add_argument("--replay", default=None)
    ap.add_argument("--runs", type=int, default=None, help="override number of seeded runs")
    ap.add_argument("--workers", type=int, default=None)
    ap.add_argument("--digest-only", action="store_true", help="print per-run digests (determinism self-test)")
    ap.add_argument("--no-evidence", action="store_true")
    ap.add_argument("--only", default=None, help="check-specific sub-selection")
    args = ap.parse_args(argv[1:])

    import iodata

    root = os.path.dirname(os.path.dirname(os.path.abspath(iodata.__file__)))
    if os.path.realpath(root) != os.path.realpath(REPO):
        print(f"HARNESS-ERROR: iodata imported from {root}, expected {REPO}")
        return 4

    from sim import common

    common.configure(repo=REPO, verif=VERIF, args=args)

    if what.startswith("selftest-"):
        import importlib

        mod = importlib.import_module("selftest." + what[len("selftest-"):])
        return mod.main(args)

    import importlib

    try:
        mod = importlib.import_module("checks." + what.lower())
    except ModuleNotFoundError as exc:
        if exc.name != "checks." + what.lower():
            raise
        print(f"unknown check {what}\n{USAGE}")
        return 2
    from sim import driver

    return driver.run_check(mod, args)


if __name__ == "__main__":
    sys.exit(main(sys.argv[1:]))
