"""Instrumented caller-side iterables (the simulator is the caller of dump_many / load_many)."""


class CallerFault(Exception):
    """Raised by the caller's own generator (a fault outside iodata)."""


import copy

import numpy as np


def _update_in_place(shared, frame):
    import attrs

    for f in attrs.fields(type(frame)):
        name = f.name.lstrip("_") if f.name in ("_atcorenums", "_charge", "_nelec", "_spinpol") else f.name
        if name in ("atcorenums", "charge", "nelec", "spinpol"):
            continue
        new = getattr(frame, f.name)
        old = getattr(shared, f.name)
        if isinstance(new, np.ndarray) and isinstance(old, np.ndarray) and new.shape == old.shape and new.dtype == old.dtype:
            old[...] = new
        else:
            setattr(shared, f.name, copy.deepcopy(new))


class TrackedFrames:
    """Iterable handed to dump_many.  kind: 'list' | 'gen' | 'gen_raise'.

    Every iter() and every pull is logged into the disk's event log, so that the order of pulls
    relative to write events is part of the recorded history.
    """

    def __init__(self, disk, path, frames, kind="list", raise_at=None):
        self.disk = disk
        self.path = path
        self.frames = frames
        self.kind = kind
        self.raise_at = raise_at
        self.n_iter = 0
        self.pulled = []
        self.finished = False
        self.closed_early = False
        self._shared = None

    def _gen(self):
        try:
            for i, frame in enumerate(self.frames):
                if self.kind == "gen_raise" and self.raise_at == i:
                    self.disk.log("pull_raise", self.path, i=i)
                    raise CallerFault(f"caller's generator failed at frame {i}")
                self.disk.log("pull", self.path, i=i)
                self.pulled.append(i)
                if self.kind == "gen_reentrant":
                    # the producer itself uses the library while dump_many is in progress (as in
                    # dump_many(convert(frame) for frame in load_many(...)))
                    self._reenter(i, frame)
                    yield frame
                elif self.kind == "gen_fresh":
                    # a new object per frame; nothing else keeps it alive once the writer is done with it
                    obj = copy.deepcopy(frame)
                    yield obj
                    del obj
                elif self.kind == "gen_reuse":
                    # one IOData object, updated in place between pulls (legal because dump_many is lazy)
                    if self._shared is None:
                        self._shared = copy.deepcopy(frame)
                    else:
                        _update_in_place(self._shared, frame)
                    yield self._shared
                else:
                    yield frame
            if self.kind == "gen_raise" and self.raise_at is not None and self.raise_at >= len(self.frames):
                self.disk.log("pull_raise", self.path, i=len(self.frames))
                raise CallerFault(f"caller's generator failed at frame {len(self.frames)}")
            self.disk.log("pull_end", self.path)
            self.finished = True
        except GeneratorExit:
            self.closed_early = True
            raise

    def _reenter(self, i, frame):
        import warnings

        import iodata

        with warnings.catch_warnings():
            warnings.simplefilter("ignore")
            side = f"reenter/{i % 3}.xyz"
            try:
                if i % 2 == 0:
                    iodata.dump_one(copy.deepcopy(frame), side)
                    iodata.load_one(side)
                else:
                    list(iodata.load_many(side)) if side in self.disk.files else iodata.dump_many(iter([copy.deepcopy(frame)]), side)
            except Exception:  # noqa: BLE001 - the side activity's own outcome is not the subject
                pass

    def __iter__(self):
        self.n_iter += 1
        self.disk.log("iter", self.path)
        return self._gen()


class TrackedList(list):
    """A real list whose iteration is observable."""

    def attach(self, tracker):
        self._tracker = tracker
        return self

    def __iter__(self):
        return iter(self._tracker)


def make_iterable(disk, path, frames, kind, raise_at=None):
    tracker = TrackedFrames(disk, path, frames, kind, raise_at)
    if kind == "list":
        return TrackedList(frames).attach(tracker), tracker
    if kind in ("iterobj",):
        return tracker, tracker
    return iter(tracker), tracker  # a plain generator object
