"""C16 - results depend only on the arguments, not on call history or interleaving.

Seeded histories (one client) and seeded schedules (2..16 real threads under the baton scheduler,
pre-empted at sys.monitoring LINE events inside iodata and at seam calls).  Every outcome is
compared with the outcome of the same call executed alone in a pristine forked process; module
tables must keep their pristine digest.
"""

import copy
import os
import pickle
import select
import sys
import warnings

from checks import c07, c08
from sim import canon, common, faults, gen, iters, sched, seams
from sim import shrink as shr
from sim.common import Stats

ID = "C16"
LEVEL = "exploration"
DEFAULT_SEED = 1616
BATCH = 4
TASK_TIMEOUT = 900
WALL_CAP = {"quick": 100, "thorough": 2400}
RULE = (
    "A run is either a history (one client executes a seeded sequence of 5..40 calls drawn with repetition from "
    "the call pool in one interpreter) or a schedule (2..16 real threads, 1..6 calls each on distinct SimDisk "
    "paths, interleaved by the seeded baton scheduler at iodata line granularity and at seam calls; policies: "
    "random switching with p in {0.2%,1%,5%}, the same plus pre-emption with p_new in {2%,10%,30%} at lines executed for the first time in the run, pre-emption right after a line that rebinds a module-level name (STORE_GLOBAL), PCT with d in {1,2,3}). Every call's outcome record (object digest "
    "/ bytes / exception type+message) must equal the record of the same call alone in a pristine fork; module "
    "table digests must stay pristine. Non-trivial = history of >= 2 calls, or a schedule in which at least one "
    "context switch landed inside an API call; distinct = hash of (call sequence) resp. (clients, switch list)."
)
ASSUMPTIONS = [
    "fresh interpreter = fork of a process that imported iodata and executed no API call (validated against real fresh subprocesses in thorough)",
    "pre-emption at Python-line granularity inside iodata code and at seam calls; not inside numpy/C code",
    "warnings are not part of the outcome record (warnings.catch_warnings is documented as not thread-safe)",
]
COMPONENTS = {
    "real": ["all of iodata (API, parsers, writers, prepare/convert, CLI convert())", "threading (real threads)", "numpy", "io stack"],
    "stub": ["file system (SimDisk, one per run, distinct paths per call)", "thread scheduler (baton: who runs next is the PRNG's choice)",
             "fresh interpreter (pristine fork)"],
}

POOL = None
REFS = None
CLOCK0 = 946728000.0  # the simulated wall clock of the pristine references (2000-01-01 12:00 UTC)
REF_STEPS = {}  # call id -> logical steps of the call alone in a pristine process
WARNERS = {}  # call id -> number of warnings the call emits when run alone
STATEFUL = {}  # call id -> sites: calls that were seen to write process-global state when run alone
_GUARD = None
SMALL = 40_000


# ------------------------------------------------------------------------------------------------
# call pool


def build_pool():
    """Deterministic list of call descriptors (pure function of the corpus listing)."""
    import iodata.__main__  # noqa: F401  no lazy imports under the scheduler (import-lock deadlock)
    from iodata.api import FORMAT_MODULES

    pool = []
    per_mod = {}
    for name in common.corpus_files():
        mod = c07.natural_fmt(name)
        if mod is None or name in c07.SLOW:
            continue
        size = os.path.getsize(os.path.join(common.DATA, name))
        if size > SMALL:
            continue
        per_mod.setdefault(mod, []).append((size, name))
    for mod in sorted(per_mod):
        files = [n for _s, n in sorted(per_mod[mod])]
        pick = files[:2] + files[-1:]
        for name in dict.fromkeys(pick):
            fmt = "json_qcschema" if name.endswith(".json") else None
            pool.append({"op": "load_one", "file": name, "fmt": fmt})
            if hasattr(FORMAT_MODULES[mod], "load_many"):
                pool.append({"op": "load_many", "file": name, "fmt": fmt})
    # loads that fail
    pool.append({"op": "load_one", "file": "water.xyz", "fmt": None, "cut": 60})
    pool.append({"op": "load_one", "file": "h2o_sto3g.fchk", "fmt": None, "cut": 3000})
    pool.append({"op": "load_many", "file": "water_trajectory.pdb", "fmt": None, "cut": 700})
    pool.append({"op": "load_one", "file": "water.xyz", "fmt": "nosuchformat"})
    pool.append({"op": "load_one", "file": "water.xyz", "fmt": "fchk"})
    pool.append({"op": "load_one", "file": "h2o_sto3g.wfn", "fmt": "wfx"})
    # unknown element symbols / bond types (inline files): outcomes that flip when a table learns them
    unk_mol2 = ("@<TRIPOS>MOLECULE\nunk\n 2 1 0 0\nSMALL\nNO_CHARGES\n\n@<TRIPOS>ATOM\n"
                "      1 Xx1        0.0000    0.0000    0.0000 Xx      1 UNK  0.0000\n"
                "      2 Qq2        0.0000    0.0000    1.0000 Qq      1 UNK  0.0000\n"
                "@<TRIPOS>BOND\n     1     1     2   zz\n")
    unk_xyz = "2\nunknown symbols\nXx 0.0 0.0 0.0\nQq 0.0 0.0 1.0\n"
    unk_pdb = ("ATOM      1 Xx1  UNK     1       0.000   0.000   0.000  1.00  0.00          Xx\n"
               "ATOM      2  Q1  UNK     1       0.000   0.000   1.000  1.00  0.00            \nEND\n")
    unk_sdf = "unk\n\n\n  2  1  0     0  0  0  0  0  0999 V2000\n    0.0000    0.0000    0.0000 Xx  0  0\n    0.0000    0.0000    1.0000 Qq  0  0\n  1  2  9  0  0  0  0\nM  END\n$$$$\n"
    # spelling variants of known symbols (upper/lower case) in formats with case-sensitive lookups
    case_pdb = ("ATOM      1 CL1  UNK     1       0.000   0.000   0.000  1.00  0.00          CL\n"
                "ATOM      2 FE2  UNK     1       0.000   0.000   2.000  1.00  0.00          FE\n"
                "ATOM      3  H3  UNK     1       0.000   1.000   2.000  1.00  0.00           h\nEND\n")
    case_com = "#p hf/sto-3g\n\ncase\n\n0 1\nH 0.0 0.0 0.0\nCL 0.0 0.0 1.3\n\n"
    case_xyz = "3\ncase variants\nCL 0.0 0.0 0.0\nfe 0.0 0.0 2.0\nh 0.0 1.0 2.0\n"
    case_sdf = "case\n\n\n  2  0  0     0  0  0  0  0  0999 V2000\n    0.0000    0.0000    0.0000 CL  0  0\n    0.0000    0.0000    1.0000 fe  0  0\nM  END\n$$$$\n"
    case_poscar = "case\n   1.0\n 5.0 0.0 0.0\n 0.0 5.0 0.0\n 0.0 0.0 5.0\n   CL FE\n   1 1\nCartesian\n 0.0 0.0 0.0\n 1.0 1.0 1.0\n"
    for fname, text in (("case.pdb", case_pdb), ("case.com", case_com), ("case.xyz", case_xyz), ("case.sdf", case_sdf),
                        ("POSCAR.case", case_poscar)):
        pool.append({"op": "load_one", "file": fname, "fmt": None, "inline": text})
    for fname, text in (("unk.mol2", unk_mol2), ("unk.xyz", unk_xyz), ("unk.pdb", unk_pdb), ("unk.sdf", unk_sdf)):
        pool.append({"op": "load_one", "file": fname, "fmt": None, "inline": text})
    pool.append({"op": "load_many", "file": "unk.mol2", "fmt": None, "inline": unk_mol2})
    # extended XYZ: species-only, Z+species, and Properties strings the parser rejects half-way
    def exyz(props, cols):
        return f"2\nProperties={props} pbc=\"F F F\"\n" + "".join(f"{c}\n" for c in cols)
    ext_ok = exyz("species:S:1:pos:R:3", ["H 0.0 0.0 0.0", "F 0.0 0.0 0.9"])
    ext_both = exyz("species:S:1:pos:R:3:Z:I:1", ["H 0.0 0.0 0.0 1", "F 0.0 0.0 0.9 9"])
    ext_bad_dtype = exyz("species:S:1:pos:R:3:foo:Q:1", ["H 0.0 0.0 0.0 1", "F 0.0 0.0 0.9 2"])
    ext_bad_shape = exyz("species:S:1:pos:R:3:foo:R:x", ["H 0.0 0.0 0.0 1", "F 0.0 0.0 0.9 2"])
    for fname, text in (("ok.extxyz", ext_ok), ("both.extxyz", ext_both), ("bad_dtype.extxyz", ext_bad_dtype), ("bad_shape.extxyz", ext_bad_shape)):
        pool.append({"op": "load_one", "file": fname, "fmt": None, "inline": text})
        pool.append({"op": "load_many", "file": fname, "fmt": None, "inline": text})
    pool.append({"op": "load_one", "file": "al_fcc.xyz", "fmt": "extxyz"})
    # a Gaussian input whose arrays contradict each other (rejected by the IOData validators)
    pool.append({"op": "load_one", "file": "blank.com", "fmt": None, "inline": "#p hf/sto-3g\n\nblank\n\n0 1\n\nH 0.0 0.0 1.0\n\n"})
    # shells of high angular momentum (formats whose convention tables end earlier)
    high_l = {"kind": "corpus", "file": "he_spdfgh_orbital.wfn", "mods": []}
    for fmt, out in (("molden", "o.molden"), ("molekel", "o.mkl"), ("fchk", "o.fchk"), ("wfx", "o.wfx"), ("wfn", "o.wfn")):
        pool.append({"op": "dump_one", "fmt": fmt, "out": out, "obj": high_l, "allow_changes": True})
    # dumps
    for fmt in sorted(c08.ONE):
        fname, recipes = c08.ONE[fmt]
        for r in recipes[:3]:
            pool.append({"op": "dump_one", "fmt": fmt, "out": fname or "o.json", "obj": r, "explicit": fname is None})
    for fmt in sorted(c08.MANY):
        fname, recipes = c08.MANY[fmt]
        pool.append({"op": "dump_many", "fmt": fmt, "out": fname, "src": recipes[0]["file"]})
        # a shorter trajectory under the same name (in histories the name may exist already, with more content)
        pool.append({"op": "dump_many", "fmt": fmt, "out": fname, "src": recipes[0]["file"], "nframes": 1})
    # a GRO trajectory whose frames differ in labels and velocities (the corpus one repeats one frame)
    gro = ("first frame, t= 0.0\n    3\n    1WATER  OW1    1   0.126   1.624   1.679  0.1227 -0.0580  0.0434\n"
           "    1WATER  HW2    2   0.190   1.661   1.747  0.8085  0.3191 -0.7791\n    1WATER  HW3    3   0.177   1.568   1.613 -0.9045 -2.6469  1.3180\n"
           "   1.82060   1.82060   1.82060\nsecond frame, t= 1.0\n    3\n    2METHA  C1     1   0.226   1.524   1.579  0.3227 -0.1580  0.2434\n"
           "    2METHA  O2     2   0.290   1.561   1.647 -0.2085  0.1191 -0.3791\n    2METHA  H3     3   0.277   1.468   1.513  0.5045 -1.2469  0.7180\n"
           "   1.82060   1.82060   1.82060\n")
    pool.append({"op": "load_many", "file": "traj.gro", "fmt": None, "inline": gro})
    # the same volumetric data in other memory layouts: the written bytes must be those of the plain object
    plain_cube = next(i for i, c in enumerate(pool) if c["op"] == "dump_one" and c.get("fmt") == "cube")
    for how in ("fortran", "transposed_view"):
        pool.append({"op": "dump_one", "fmt": "cube", "out": "o.cube", "obj": {**copy.deepcopy(pool[plain_cube]["obj"]), "mods": [{"op": "cube_layout", "how": how}]},
                     "same_as": plain_cube})
    # names in which a prefix pattern of one format meets the extension of another (the decision for one name must not
    # influence the decision for the next), before and after an ordinary file of that extension
    for stored, src_ in (("POSCAR_relaxed.xyz", "water.xyz"), ("CHGCAR_old.cube", "cubegen_h2o_5points.cube"), ("my.FCIDUMP.xyz", "water.xyz"),
                         ("plain.xyz", "water.xyz"), ("plain.cube", "cubegen_h2o_5points.cube")):
        pool.append({"op": "load_one", "file": src_, "as": stored, "fmt": None})
    # the target "-" is a file named "-" like any other; written twice, it is written the same way twice
    pool.append({"op": "dump_one", "fmt": "xyz", "out": "-", "obj": {"kind": "corpus", "file": "water.xyz", "mods": []}, "explicit": True})
    pool.append({"op": "dump_many", "fmt": "xyz", "out": "-", "src": "water_trajectory.xyz", "explicit": True})
    # conversions whose output lies in a directory that does not exist (shared by all clients of a run): the operating
    # system's error is the outcome, alone and interleaved
    for k_, (inp, outn) in enumerate((("water.xyz", "c.xyz"), ("water_trajectory.xyz", "c.pdb"), ("h2o_sto3g.fchk", "c.molden"))):
        pool.append({"op": "convert", "file": inp, "out": outn, "shared_dir": "results/run1", "allow_changes": True})
    # inputs whose arithmetic overflows / divides by zero (results flip if the floating-point error state leaks)
    far_mol2 = unk_mol2.replace("Xx1        0.0000    0.0000    0.0000 Xx", "C1    1.0e308    0.0000    0.0000 C ").replace("Qq2", "O2 ").replace(" Qq ", " O  ").replace("zz", "1")
    far_xyz = "2\nfar away\nH 1.0e308 0.0 0.0\nH 0.0 0.0 0.7\n"
    flat_chgcar = "flat cell\n   1.0\n 1.0 0.0 0.0\n 2.0 0.0 0.0\n 0.0 0.0 1.0\n   H\n   1\nDirect\n 0.0 0.0 0.0\n\n 1 1 1\n 1.0\n"
    for fname, text in (("far.mol2", far_mol2), ("far.xyz", far_xyz), ("CHGCAR.flat", flat_chgcar)):
        pool.append({"op": "load_one", "file": fname, "fmt": None, "inline": text})
    # a QCSchema molecule with several keys the schema does not know (passed through verbatim on dump)
    import json as _json

    mol_json = _json.loads(common.corpus_bytes("CuSCN_molecule.json"))
    for k, v in (("zzz_custom", 1), ("aaa_custom", [1, 2]), ("mmm_custom", {"b": 1, "a": 2}), ("kkk_custom", "x"), ("ddd_custom", 2.5)):
        mol_json[k] = v
    pool.append({"op": "convert", "file": "custom_keys.json", "out": "c.json", "inline": _json.dumps(mol_json, indent=1), "infmt": "json_qcschema", "outfmt": "json_qcschema"})
    # the same object dumped twice, to two formats: the second file must be what that dump writes alone
    unsorted = {"kind": "corpus", "file": "h2o_sto3g.fchk", "mods": [{"op": "unsorted_centres"}]}
    plain = {"kind": "corpus", "file": "h2o_sto3g.fchk", "mods": []}
    # (segmented basis sets as well: with generalized contractions the writers above work on a converted copy)
    unsorted_seg = {"kind": "corpus", "file": "he2_ghost_psi4_1.0.molden", "mods": [{"op": "unsorted_centres"}]}
    unsorted_wfn = {"kind": "corpus", "file": "h2o_sto3g.wfn", "mods": [{"op": "unsorted_centres"}]}
    for obj_ in (unsorted, plain, unsorted_seg, unsorted_wfn):
        for first, second in ((("molden", "a.molden"), ("fchk", "b.fchk")), (("molden", "a.molden"), ("wfn", "b.wfn")),
                              (("wfn", "a.wfn"), ("molden", "b.molden")), (("fchk", "a.fchk"), ("wfx", "b.wfx")),
                              (("molekel", "a.mkl"), ("fchk", "b.fchk"))):
            pool.append({"op": "dump_one", "fmt": second[0], "out": second[1], "obj": obj_, "first": list(first), "allow_changes": True})
    # damaged copies of the smallest corpus file of every format (lost / repeated lines, cut, changed count fields):
    # loaders that pre-allocate arrays and are then given fewer data than announced must not hand out (or act on)
    # whatever the memory held before
    import random as _random

    for mod in sorted(per_mod):
        name = sorted(per_mod[mod])[0][1]
        data = common.corpus_bytes(name)
        drng = _random.Random(f"c16-damaged-{name}")
        for kind in ("line_del", "field_overwrite", "crash_prefix"):
            f = faults.random_fault(drng, data, kind)
            if kind == "field_overwrite":
                f["token"] = drng.choice(["1", "2", "3", "7"])
                f["line"] = min(f["line"], drng.choice([0, 1, 2, 3, f["line"]]))
            pool.append({"op": "load_one", "file": name, "fmt": "json_qcschema" if name.endswith(".json") else None,
                         "derive": [{"kind": "fault", "fault": f}]})
    # a GAMESS punch file whose $HESS group is short but properly terminated
    pool.append({"op": "load_one", "file": "PCGamess_PUNCH.dat", "fmt": None,
                 "derive": [{"kind": "hess_short"}]})
    # dumps that fail half-way because of the disk (a failed call must not leave state behind either)
    for fmt in ("xyz", "molden", "wfx", "fchk", "json_qcschema", "mol2", "pdb"):
        fname, recipes = c08.ONE[fmt]
        pool.append({"op": "dump_one", "fmt": fmt, "out": fname or "o.json", "obj": recipes[0], "explicit": fname is None,
                     "faults": [{"kind": "text_write_fail", "k": 7, "errno": "ENOSPC"}]})
        pool.append({"op": "dump_one", "fmt": fmt, "out": fname or "o.json", "obj": recipes[0], "explicit": fname is None,
                     "faults": [{"kind": "disk_full", "capacity": 120}]})
    pool.append({"op": "dump_many", "fmt": "xyz", "out": "t.xyz", "src": "water_trajectory.xyz", "faults": [{"kind": "disk_full", "capacity": 200}]})
    pool.append({"op": "dump_many", "fmt": "pdb", "out": "t.pdb", "src": "water_trajectory.pdb", "faults": [{"kind": "text_write_fail", "k": 30, "errno": "EIO"}]})
    # ghost atoms, unknown elements: the inputs whose outcome flips when a global table is edited
    ghost = {"kind": "corpus", "file": "he2_ghost_psi4_1.0.molden", "mods": []}
    ghost2 = {"kind": "corpus", "file": "water_dimer_ghost.fchk", "mods": []}
    gmol = {"kind": "mol", "fields": {"atnums": [0, 8, 1], "atcoords": [[0, 0, 0], [0, 0, 2], [0, 1.5, 2.5]], "title": "ghost"}, "mods": []}
    for fmt, out in (("xyz", "o.xyz"), ("sdf", "o.sdf"), ("mol2", "o.mol2"), ("molden", "o.molden"), ("wfn", "o.wfn"),
                     ("wfx", "o.wfx"), ("molekel", "o.mkl"), ("fchk", "o.fchk")):
        pool.append({"op": "dump_one", "fmt": fmt, "out": out, "obj": ghost, "allow_changes": True})
    for fmt, out in (("xyz", "o.xyz"), ("wfx", "o.wfx"), ("molden", "o.molden"), ("pdb", "o.pdb")):
        pool.append({"op": "dump_one", "fmt": fmt, "out": out, "obj": ghost2, "allow_changes": True})
    for fmt, out in (("xyz", "o.xyz"), ("sdf", "o.sdf"), ("mol2", "o.mol2")):
        pool.append({"op": "dump_one", "fmt": fmt, "out": out, "obj": gmol})
    pool.append({"op": "write_input", "fmt": "gaussian", "out": "i.com", "obj": gmol})
    pool.append({"op": "write_input", "fmt": "orca", "out": "i.inp", "obj": {"kind": "corpus", "file": "water.xyz", "mods": []}})
    pool.append({"op": "write_input", "fmt": "gaussian", "out": "i.com", "obj": {"kind": "corpus", "file": "h2o_sto3g.fchk", "mods": []}})
    # dumps that fail pre-flight / at selection
    pool.append({"op": "dump_one", "fmt": "xyz", "out": "o.xyz", "obj": {"kind": "corpus", "file": "FCIDUMP.psi4.h2", "mods": []}})
    pool.append({"op": "dump_one", "fmt": "wfn", "out": "o.wfn", "obj": {"kind": "corpus", "file": "water_ccpvdz_pure_hf_g03.fchk", "mods": []}})
    pool.append({"op": "dump_one", "fmt": "molden", "out": "o.molden", "obj": {"kind": "corpus", "file": "h2o_sto3g.fchk", "mods": []}, "allow_changes": True})
    pool.append({"op": "dump_one", "fmt": "gromacs", "out": "o.gro", "obj": {"kind": "corpus", "file": "water.xyz", "mods": []}, "explicit": True})
    # conversions through the CLI's convert()
    pool.append({"op": "convert", "file": "water.xyz", "out": "c.sdf"})
    pool.append({"op": "convert", "file": "h2o_sto3g.fchk", "out": "c.molden", "allow_changes": True})
    pool.append({"op": "convert", "file": "water_trajectory.xyz", "out": "c.pdb", "many": True})
    pool.append({"op": "convert", "file": "he2_ghost_psi4_1.0.molden", "out": "c.wfx", "allow_changes": True})
    pool.append({"op": "convert", "file": "water_dimer_ghost.fchk", "out": "c.xyz"})
    for i, c in enumerate(pool):
        c["id"] = i
    return pool


def prepare_call(call):
    """Everything that is not the call itself: objects to dump, input bytes (done outside seams)."""
    prep = {}
    if "obj" in call:
        prep["obj"] = gen.build(call["obj"])
    if call["op"] == "dump_many":
        prep["frames"] = gen.all_frames(call["src"])[: call.get("nframes", 4)]
    if call.get("pause"):
        prep["pause_prep"] = prepare_call(call["pause"])  # outside the seams, like all argument preparation
    if "inline" in call:
        prep["data"] = call["inline"].encode()
    elif "file" in call:
        data = common.corpus_bytes(call["file"])
        if "cut" in call:
            data = data[: call["cut"]]
        for d in call.get("derive", []):
            if d["kind"] == "fault":
                data = faults.apply(data, d["fault"])
            if d["kind"] == "hess_short":
                # drop the second half of the lines between $HESS and its $END
                lines = data.splitlines(keepends=True)
                try:
                    a = [i for i, l in enumerate(lines) if l.strip().startswith(b"$HESS")][-1]  # (the first one is the approximate Hessian, skipped by the loader)
                    b = next(i for i in range(a, len(lines)) if lines[i].strip() == b"$END")
                    data = b"".join(lines[: a + 2 + (b - a - 2) // 2] + lines[b:])
                except (StopIteration, IndexError):
                    pass
        prep["data"] = data
    return prep


def exec_call(call, prep, disk, prefix, reference=False):
    """Run one API call on its own paths of `disk`; returns the outcome record.  reference=True leaves out the
    optional first dump of a "dump_after" call: the bytes written by a dump must equal those of the same dump alone."""
    import iodata
    from iodata.__main__ import convert

    op = call["op"]
    rec = None
    try:
        if op in ("load_one", "load_many", "convert"):
            path = prefix + call.get("as", call["file"])
            disk.put(path, prep["data"])
        if op == "load_one":
            d = iodata.load_one(path, fmt=call.get("fmt"))
            rec = ["ok", canon.iodata_digest(d)]
        elif op == "load_many":
            if call.get("pause"):
                # take one frame, do something else with the library, then resume the iterator
                it = iodata.load_many(path, fmt=call.get("fmt"))
                ds = []
                at_yield = []
                for d in it:
                    at_yield.append(canon.iodata_digest(d))
                    ds.append(d)
                    if len(ds) == 1:
                        inner = call["pause"]
                        exec_call(inner, prep["pause_prep"], disk, prefix + "inner/")
            else:
                ds = []
                at_yield = []
                for d in iodata.load_many(path, fmt=call.get("fmt")):
                    at_yield.append(canon.iodata_digest(d))  # what the caller sees when the frame is handed out
                    ds.append(d)
            rec = ["ok", [canon.iodata_digest(d) for d in ds]]
            if rec[1] != at_yield:
                rec.append("FRAMES_CHANGED_AFTER_YIELD")
        if "out" in call:
            # (also without faults: under a name used before, the fault plan of the earlier call must not linger)
            disk.plans[prefix + call["out"]] = seams.WritePlan.from_faults(call.get("faults"))
        if op == "dump_one":
            if call.get("first") and not reference:
                try:
                    iodata.dump_one(prep["obj"], prefix + call["first"][1], fmt=call["first"][0], allow_changes=call.get("allow_changes", False))
                except Exception:  # noqa: BLE001 - only the second dump is the subject
                    pass
            out = prefix + call["out"]
            fmt = call["fmt"] if call.get("explicit") or call["fmt"] == "json_qcschema" else None
            r = iodata.dump_one(prep["obj"], out, fmt=fmt, allow_changes=call.get("allow_changes", False))
            rec = ["ok", common.short(disk.get(out) or b"", 16), r is prep["obj"]]
        elif op == "dump_many":
            out = prefix + call["out"]
            iodata.dump_many(iter(prep["frames"]), out, **({"fmt": call["fmt"]} if call.get("explicit") else {}))
            rec = ["ok", common.short(disk.get(out) or b"", 16)]
        elif op == "write_input":
            out = prefix + call["out"]
            iodata.write_input(prep["obj"], out, call["fmt"])
            rec = ["ok", common.short(disk.get(out) or b"", 16)]
        elif op == "convert":
            out = prefix + call["out"]
            if call.get("shared_dir"):
                out = call["shared_dir"] + "/" + prefix.replace("/", "_") + call["out"]
            fmt = "json_qcschema" if call["file"].endswith(".json") else None
            convert(path, out, many=call.get("many", False), infmt=fmt, outfmt=call.get("outfmt"), allow_changes=call.get("allow_changes", False))
            rec = ["ok", common.short(disk.get(out) or b"", 16)]
    except Exception as exc:  # noqa: BLE001 - part of the outcome
        cause = exc.__cause__
        msg_ = str(exc)
        if prefix:
            msg_ = msg_.replace(prefix, "")
            if call.get("shared_dir"):
                msg_ = msg_.replace(call["shared_dir"] + "/" + prefix.replace("/", "_"), call["shared_dir"] + "/")
        rec = ["exc", type(exc).__name__, msg_[:200],
               None if cause is None else type(cause).__name__]
    return rec


# ------------------------------------------------------------------------------------------------
# pristine references


def _child_reference(call, wfd):
    try:
        warnings.simplefilter("ignore")
        prep = prepare_call(call)
        warnings.resetwarnings()
        warnings.simplefilter("always")  # (the outcome does not depend on it; the number of warnings is wanted)
        shown = []
        warnings.showwarning = lambda *a, **k: shown.append(1)
        sched.MONITOR.install(common.REPO)
        guard = canon.TableGuard()  # after the arguments were prepared: only the call itself is observed
        probe = sched.GlobalStoreProbe()
        disk = seams.SimDisk(log_events=False)
        disk.declare_missing("results")
        with seams.Installed(disk), seams.MemPoison(0), seams.SimClock(CLOCK0), _Stdio(), sched.Steps(sched=probe) as st:
            rec = exec_call(call, prep, disk, "", reference=True)
        # does this call write process-global state of any kind (tables, memo caches, rebound names)?
        stateful = bool(probe.hits) or bool(guard.changed()) or bool(canon.clear_function_caches())
        payload = pickle.dumps(("ok", (rec, stateful, sorted(probe.sites), st.steps, len(shown))))
    except BaseException as exc:  # noqa: BLE001
        payload = pickle.dumps(("harness", f"{type(exc).__name__}: {exc}"))
    with os.fdopen(wfd, "wb") as fh:
        fh.write(payload)
    os._exit(0)


def compute_refs(pool, maxpar=16):
    """Outcome of every pool call executed alone in a fork of this (pristine) process."""
    refs = {}
    pending = list(pool)
    running = {}
    sys.stdout.flush()
    while pending or running:
        while pending and len(running) < maxpar:
            call = pending.pop(0)
            rfd, wfd = os.pipe()
            pid = os.fork()
            if pid == 0:
                os.close(rfd)
                _child_reference(call, wfd)
            os.close(wfd)
            running[rfd] = (pid, call, b"")
        ready, _, _ = select.select(list(running), [], [], 60)
        if not ready:
            raise RuntimeError("HARNESS: reference child hangs")
        for rfd in ready:
            pid, call, buf = running[rfd]
            chunk = os.read(rfd, 1 << 16)
            if chunk:
                running[rfd] = (pid, call, buf + chunk)
                continue
            os.close(rfd)
            os.waitpid(pid, 0)
            del running[rfd]
            kind, rec = pickle.loads(buf)
            if kind != "ok":
                raise RuntimeError(f"HARNESS: reference for call {call['id']} failed: {rec}")
            refs[call["id"]] = rec[0]
            REF_STEPS[call["id"]] = rec[3]
            if rec[4]:
                WARNERS[call["id"]] = rec[4]
            if rec[1]:
                STATEFUL[call["id"]] = rec[2]
    return refs


# ------------------------------------------------------------------------------------------------


def setup_worker():
    global _GUARD
    import iodata.__main__  # noqa: F401

    sched.MONITOR.install(common.REPO)
    warnings.simplefilter("ignore")
    _GUARD = canon.TableGuard()


def _v(cls, msg, trace, extra=""):
    return {"cls": cls, "sig": f"{cls}|{extra}", "msg": msg, "trace": copy.deepcopy(trace)}


def _call_name(call):
    what = call.get("file") or (call.get("obj") or {}).get("file") or (call.get("obj") or {}).get("kind") or call.get("src")
    flt = "" if not call.get("faults") else " fault=" + call["faults"][0]["kind"]
    return f"{call['op']}({what}->{call.get('out', '')} fmt={call.get('fmt')}{flt})"


def _save_warn_state():
    import numpy as np

    return (warnings.filters[:], warnings.showwarning, getattr(warnings, "_showwarnmsg_impl", None), np.geterr(), sys.stdout, sys.stderr)


def _restore_warn_state(st):
    changed = warnings.filters != st[0] or warnings.showwarning is not st[1]
    warnings.filters[:] = st[0]
    warnings.showwarning = st[1]
    if st[2] is not None:
        warnings._showwarnmsg_impl = st[2]
    if hasattr(warnings, "_filters_mutated"):
        warnings._filters_mutated()
    import numpy as np

    np.seterr(**st[3])  # the floating-point error state of the main thread is process state as well
    sys.stdout, sys.stderr = st[4], st[5]  # (a writer that redirects the process-wide stdout must not leak into later runs)
    return changed


def _budget(calls):
    """Liveness: a run may take a few times the steps its calls take alone (first dump of a dump-after call, inner
    calls of paused iterators and cold caches included), not more."""
    total = 0
    for c in calls:
        total += REF_STEPS.get(c["id"], 200_000) * (2 if c.get("first") else 1)
        if c.get("pause"):
            total += REF_STEPS.get(c["pause"]["id"], 200_000)
    return 4 * total + 50_000


def _discard_warning(*args, **kwargs):
    return None


def _set_numpy_print_environment(trace):
    """Global print options of numpy are application state too: nothing that is written may depend on them."""
    import numpy as np

    saved = np.get_printoptions()
    if trace.get("npprint"):
        np.set_printoptions(precision=3, suppress=True, threshold=5, edgeitems=1, linewidth=40)
    return saved


class _Stdio:
    """A run gets its own sys.stdout / sys.stderr objects (text buffers): code that writes to them, redirects them or
    closes them does so to the run's objects, as it would to those of the application."""

    def __enter__(self):
        import io

        self._saved = (sys.stdout, sys.stderr)
        sys.stdout, sys.stderr = io.StringIO(), io.StringIO()
        return self

    def __exit__(self, *exc):
        sys.stdout, sys.stderr = self._saved
        return False


def _set_warning_environment(trace):
    """The application's warning configuration is part of the environment, not of the arguments: 'ignore' (nothing is
    recorded or re-issued by the API wrappers) or 'always' (every warning is shown; here: discarded by the sink)."""
    warnings.resetwarnings()
    warnings.simplefilter(trace.get("wfilter") or "ignore")
    warnings.showwarning = _discard_warning


def _memnote(trace):
    m = trace.get("mem")
    if trace.get("clock") not in (None, CLOCK0):
        return f"; simulated wall clock {trace['clock'] - CLOCK0:.0f} s after that of the pristine run" + (f", uninitialised memory fill pattern {m}" if m else "")
    return f"; uninitialised memory (np.empty in iodata) held fill pattern {m} in this run, zeros in the pristine one" if m else ""


def _cold_start():
    """Preparing the arguments (loading corpus objects) may have warmed memo caches or other scratch state;
    every run starts from the pristine module state so that it does not depend on what the worker did before
    (and replays in a fresh interpreter see the same state)."""
    if _GUARD is not None and _GUARD.changed():
        _GUARD.restore()
    import linecache

    linecache.clearcache()  # (process-wide cache of file contents keyed by name: part of the cold state)


def run_history(trace, refs, stats=None):
    """One client, calls in sequence; oracle after every call."""
    out = []
    calls = trace["calls"]
    _cold_start()  # (argument preparation uses the library too: it must not meet what an earlier run left behind)
    try:
        preps = [prepare_call(c) for c in calls]
    except Exception as exc:  # noqa: BLE001
        # loading the corpus objects that serve as arguments is itself a history of load_one calls on intact files
        return [_v("argument_preparation_failed", f"loading the intact corpus files that serve as arguments failed after other such loads: {type(exc).__name__}: {exc}",
                   trace, "prepare")], [], 0
    _cold_start()
    disk = seams.SimDisk(log_events=False)
    disk.declare_missing("results")
    wst = _save_warn_state()
    _set_warning_environment(trace)
    npsaved = _set_numpy_print_environment(trace)
    recs = []
    table_reported = False
    mem = seams.MemPoison(trace.get("mem"))
    with seams.Installed(disk), mem, seams.SimClock(trace.get("clock")), _Stdio(), sched.Steps(budget=_budget(calls)) as st:
        for k, (call, prep) in enumerate(zip(calls, preps)):
            try:
                # "flat" histories use the same names again and again (a name gets other content, an output exists already)
                rec = exec_call(call, prep, disk, "" if trace.get("flat") else f"h{k}/")
            except sched.StepBudgetExceeded as exc:
                out.append(_v("no_termination", f"call #{k} {_call_name(call)} did not return within the step budget of the history "
                              f"({_budget(calls)} steps; its calls take {sum(REF_STEPS.get(c['id'], 0) for c in calls)} alone): {exc}",
                              {**trace, "calls": calls[: k + 1]}, _call_name(call)))
                break
            recs.append(rec)
            ref = refs[call["id"]] if call["id"] in refs else None
            if rec and rec[-1] == "FRAMES_CHANGED_AFTER_YIELD":
                out.append(_v("frame_changed_after_yield", f"call #{k} {_call_name(call)}: a frame was different at the end of the iteration from what it was when "
                              "load_many handed it out", {**trace, "calls": calls[: k + 1]}, _call_name(call)))
            if ref is not None and rec != ref:
                prev = _call_name(calls[k - 1]) if k else "-"
                out.append(_v("outcome_differs", f"call #{k} {_call_name(call)} gave {rec} but alone in a pristine process {ref} "
                              f"(after {k} earlier calls, last {prev}{_memnote(trace)})", {**trace, "calls": calls[: k + 1]}, _call_name(call)))
            if not table_reported and _GUARD.changed():
                ch = _GUARD.changed(tables_only=True)
                if ch:
                    table_reported = True
                    out.append(_v("module_table_changed", f"after call #{k} {_call_name(call)}: {'; '.join(ch[:3])}",
                                  {**trace, "calls": calls[: k + 1]}, ch[0].split(":")[0].split("[")[0]))
    import numpy as _np

    _np.set_printoptions(**npsaved)
    if disk.open_handles():
        out.append(_v("handle_leak", f"{len(disk.open_handles())} handles open after the history", trace))
    if _GUARD.changed():
        _GUARD.restore()
        if _GUARD.changed():
            raise RuntimeError("HARNESS: module tables could not be restored")
    _restore_warn_state(wst)
    if stats is not None:
        stats.inc("steps", st.steps)
        stats.inc("fault.uninitialised_memory_filled", mem.hits if trace.get("mem") else 0)
        for a, b in zip(calls, calls[1:]):
            stats.add("call_pairs", f"{a['id']}>{b['id']}")
    return out, recs, st.steps


def run_threads(trace, refs, rng=None, stats=None):
    """Several clients under the baton scheduler."""
    out = []
    clients = trace["clients"]
    _cold_start()
    try:
        preps = [[prepare_call(c) for c in cl] for cl in clients]
    except Exception as exc:  # noqa: BLE001
        return [_v("argument_preparation_failed", f"loading the intact corpus files that serve as arguments failed after other such loads: {type(exc).__name__}: {exc}",
                   trace, "prepare")], [], sched.Baton(rng, ("serial",)), 0
    _cold_start()
    disk = seams.SimDisk(log_events=False)
    disk.declare_missing("results")
    policy = tuple(trace["policy"])
    if trace.get("schedule") is not None:
        policy = ("replay", trace["schedule"])
    baton = sched.Baton(rng, policy, horizon=trace.get("horizon", 20000))
    disk.sched = baton
    results = [[None] * len(cl) for cl in clients]
    active = {}

    def make(ci):
        def body():
            for k, (call, prep) in enumerate(zip(clients[ci], preps[ci])):
                active[ci] = _call_name(call)
                results[ci][k] = exec_call(call, prep, disk, f"t{ci}_{k}/")
                active[ci] = None
            return True
        return body

    wst = _save_warn_state()
    _set_warning_environment(trace)
    npsaved = _set_numpy_print_environment(trace)
    budget = _budget([c for cl in clients for c in cl])
    try:
        with seams.Installed(disk), seams.MemPoison(trace.get("mem")) as mem, seams.SimClock(trace.get("clock")), _Stdio(), sched.Steps(budget=budget, sched=baton) as st:
            done = baton.run([make(i) for i in range(len(clients))])
    except sched.SchedulerStall as exc:
        _restore_warn_state(wst)
        return [_v("stall_under_interleaving", str(exc), trace, "stall")], results, baton, 0
    finally:
        import numpy as _np

        _np.set_printoptions(**npsaved)
    warn_left = _restore_warn_state(wst)
    for c in done:
        if isinstance(c.error, sched.StepBudgetExceeded):
            out.append(_v("no_termination_under_interleaving", f"client {c.idx} was still inside {active.get(c.idx)} when the run had taken {budget} steps "
                          f"(its calls take {sum(REF_STEPS.get(x['id'], 0) for cl in clients for x in cl)} steps alone): {c.error}"
                          f" [warning filter of the application: {trace.get('wfilter') or 'ignore'}]", trace, "budget"))
        elif c.error is not None:
            out.append(_v("client_died", f"client {c.idx} died with {type(c.error).__name__}: {c.error}", trace, type(c.error).__name__))
    for ci, cl in enumerate(clients):
        for k, call in enumerate(cl):
            rec = results[ci][k]
            ref = refs.get(call["id"])
            if rec and rec[-1] == "FRAMES_CHANGED_AFTER_YIELD":
                out.append(_v("frame_changed_after_yield", f"client {ci} call #{k} {_call_name(call)}: a frame was different at the end of the iteration from what it "
                              "was when load_many handed it out", trace, _call_name(call)))
            if rec is not None and ref is not None and rec != ref:
                out.append(_v("outcome_differs", f"client {ci} call #{k} {_call_name(call)} gave {rec} under interleaving but alone {ref}{_memnote(trace)}",
                              trace, _call_name(call)))
    ch = _GUARD.changed(tables_only=True) if _GUARD.changed() else []
    if ch:
        out.append(_v("module_table_changed", f"after the threaded run: {'; '.join(ch[:3])}", trace, ch[0].split(":")[0].split("[")[0]))
    if _GUARD.changed():
        if stats is not None and not ch:
            stats.inc("probe.scratch_state_reset")
        _GUARD.restore()
    if disk.open_handles():
        out.append(_v("handle_leak", f"{len(disk.open_handles())} handles open after the threaded run", trace))
    inside = sum(1 for pt, frm, to, site in baton.switches if pt > 0)
    if stats is not None:
        stats.inc("steps", st.steps)
        stats.inc("fault.uninitialised_memory_filled", mem.hits if trace.get("mem") else 0)
        stats.inc("probe.switches_inside_api_calls", inside)
        if warn_left:
            stats.inc("probe.warnings_state_left_modified")
        for pt, frm, to, site in baton.switches:
            if pt > 0 and "api.py" in site:
                stats.inc("probe.switch_inside_api_py")
    return out, results, baton, st.steps


def execute(trace):
    global POOL, REFS
    if REFS is None:
        _ensure_refs_for(trace)
    if trace["mode"] == "layout":
        a, b = trace["calls"]
        return [] if REFS[a["id"]] == REFS[b["id"]] else [_v("layout_dependent_outcome", f"{_call_name(a)}: {REFS[a['id']]} in another memory layout, {REFS[b['id']]} plain", trace, _call_name(a))]
    if trace["mode"] == "fresh":
        bad = fresh_crosscheck(POOL or build_pool(), REFS, [trace["calls"][0]["id"]], hashseeds=("1", "4242", "99991", "7"))
        return [_v("fresh_interpreter_differs", f"fresh interpreter gives {rec}, pristine fork {ref}", trace, _call_name(trace["calls"][0])) for _c, ref, rec in bad]
    if trace["mode"] == "history":
        return run_history(trace, REFS)[0]
    return run_threads(trace, REFS, rng=common.rng_for("replay"))[0]


def _ensure_refs_for(trace):
    """Replay in a fresh interpreter: compute references for the calls of the trace."""
    global REFS
    calls = trace["calls"] if "calls" in trace else [c for cl in trace["clients"] for c in cl]
    uniq = {c["id"]: c for c in calls}
    REFS = compute_refs(list(uniq.values()))


# ------------------------------------------------------------------------------------------------


FRESH_SNIPPET = """
import sys, json, warnings
sys.path[:0] = [{repo!r}, {verif!r}]
warnings.simplefilter("ignore")
from sim import common, seams
common.configure({repo!r}, {verif!r})
import iodata
from checks import c16
pool = c16.build_pool()
out = {{}}
for cid in {ids!r}:
    call = pool[cid]
    prep = c16.prepare_call(call)
    disk = seams.SimDisk(log_events=False)
    disk.declare_missing("results")
    with seams.Installed(disk), seams.SimClock(c16.CLOCK0):
        out[cid] = c16.exec_call(call, prep, disk, "", reference=True)
    break  # one call per fresh interpreter
print("FRESH " + json.dumps(out))
"""


def fresh_crosscheck(pool, refs, ids, hashseeds=("0",)):
    """Validates the shortcut 'fresh interpreter = fork of a pristine process': each sampled call is executed
    as the only call of a really fresh python and must give the reference record."""
    import json
    import subprocess
    from concurrent.futures import ThreadPoolExecutor

    def one(cid):
        code = FRESH_SNIPPET.format(repo=common.REPO, verif=common.VERIF, ids=[cid])
        # a fresh interpreter of a user has an arbitrary string-hash seed: results must not depend on it
        env = {**os.environ, "PYTHONHASHSEED": hashseeds[cid % len(hashseeds)], "PYTHONDONTWRITEBYTECODE": "1"}
        cp = subprocess.run([sys.executable, "-c", code], capture_output=True, text=True, env=env, timeout=300)
        for line in cp.stdout.splitlines():
            if line.startswith("FRESH "):
                return cid, json.loads(line[6:])[str(cid)]
        raise RuntimeError(f"HARNESS: fresh interpreter for call {cid} failed: {cp.stderr[-400:]}")

    bad = []
    with ThreadPoolExecutor(8) as ex:
        for cid, rec in ex.map(one, ids):
            if json.loads(json.dumps(refs[cid])) != rec:
                bad.append((cid, refs[cid], rec))
    return bad


FRESH_CHECKED = 0
FRESH_BAD = []  # (call id, reference record, record in a fresh interpreter under another hash seed)


def plan(tier, seed, args):
    global POOL, REFS, FRESH_CHECKED
    POOL = build_pool()
    REFS = compute_refs(POOL)
    rng = common.rng_for(seed, ID, "fresh")
    ids = set(rng.sample(range(len(POOL)), 6 if tier == "quick" else 48))
    # QCSchema code iterates over Python sets: always cross-check those calls under other hash seeds
    ids |= {c["id"] for c in POOL if ".json" in (c.get("file") or "") or c.get("fmt") == "json_qcschema"}
    ids = sorted(ids)
    bad = fresh_crosscheck(POOL, REFS, ids, hashseeds=("1", "4242", "99991", "31337"))
    FRESH_BAD.extend(bad)
    FRESH_CHECKED = len(ids)
    n = args.runs or (700 if tier == "quick" else 12000)
    tasks = [{"run": i, "seed": seed, "tier": tier} for i in range(n)]
    # metamorphic relation: an argument that differs only in the memory layout of an array gives the outcome of the plain one
    for c in POOL:
        if c.get("same_as") is not None and REFS[c["id"]] != REFS[c["same_as"]]:
            FRESH_BAD.append((c["id"], REFS[c["same_as"]], REFS[c["id"]]))
    if FRESH_BAD:
        tasks.insert(0, {"run": -1, "seed": seed, "tier": tier, "fresh_bad": [(cid, ref, rec) for cid, ref, rec in FRESH_BAD]})
    # Adaptive targeting: calls that write process-global state when run alone (none on a tree where the property
    # holds trivially) are interleaved pairwise, pre-empting right after every global store.
    ids = sorted(STATEFUL)
    pairs = [(a, b) for a in ids for b in ids]
    prng = common.rng_for(seed, ID, "pairs")
    cap = 240 if tier == "quick" else 4000
    if len(pairs) > cap:
        pairs = prng.sample(pairs, cap)
    run = n
    for a, b in pairs:
        for pol in (["gstore", 0.002, 1.0], ["newline", 0.002, 0.3]):
            tasks.append({"run": run, "seed": seed, "tier": tier, "pair": [a, b], "policy": pol})
            run += 1
    # Calls that emit warnings go through warnings.catch_warnings in the API wrappers (process-global state that is
    # saved and restored per call): pairs of them are interleaved with pre-emption right after that state is touched.
    wids = sorted(WARNERS)
    wpairs = [(a, b) for a in wids for b in wids]
    cap = 90 if tier == "quick" else 3000
    if len(wpairs) > cap:
        wpairs = common.rng_for(seed, ID, "wpairs").sample(wpairs, cap)
    for a, b in wpairs:
        for pol in (["gstore", 0.002, 0.5], ["gstore", 0.01, 0.25]):
            tasks.append({"run": run, "seed": seed, "tier": tier, "pair": [a, b], "policy": pol, "wfilter": "always"})
            run += 1
    return tasks


def _with_pauses(rng, calls):
    """Some load_many calls are consumed with a pause after the first frame, during which another pool call runs
    (same reference outcome: the frames must not depend on what happens between two next() calls)."""
    for c in calls:
        if c["op"] == "load_many" and not c.get("pause") and rng.random() < 0.3:
            inner = copy.deepcopy(rng.choice(POOL))
            inner.pop("pause", None)
            c["pause"] = inner
    return calls


def gen_trace(rng):
    if rng.random() < 0.45:
        n = rng.randint(5, 40)
        return {"mode": "history", "calls": _with_pauses(rng, [copy.deepcopy(rng.choice(POOL)) for _ in range(n)])}
    nthreads = rng.choice([2, 2, 3, 3, 4, 6, 8, 16])
    # swarm: most runs draw all clients' calls from a small random subset of the pool, so that concurrent
    # threads are likely to be inside the same code paths (where races on shared state live)
    sub = POOL
    if rng.random() < 0.65:
        sub = rng.sample(POOL, rng.choice([2, 3, 4, 6]))
    clients = [[copy.deepcopy(rng.choice(sub)) for _ in range(rng.randint(1, 6 if nthreads <= 6 else 2))] for _ in range(nthreads)]
    r = rng.random()
    if r < 0.3:
        policy = ["random", rng.choice([0.002, 0.01, 0.05])]
    elif r < 0.6:
        policy = ["newline", rng.choice([0.002, 0.01]), rng.choice([0.02, 0.1, 0.3])]
    elif r < 0.8:
        policy = ["gstore", rng.choice([0.002, 0.01]), rng.choice([0.3, 0.6, 1.0])]
    else:
        policy = ["pct", rng.choice([1, 2, 3])]
    return {"mode": "threads", "clients": clients, "policy": policy, "schedule": None, "horizon": 4000 * nthreads}


def run_task(task):
    rng = common.rng_for(task["seed"], ID, task["run"])
    stats = Stats()
    if "fresh_bad" in task:
        viols = []
        for cid, ref, rec in task["fresh_bad"]:
            call = POOL[cid]
            if call.get("same_as") is not None:
                viols.append(_v("layout_dependent_outcome", f"{_call_name(call)} with the same values in another memory layout ({call['obj']['mods']}) gave {rec}, "
                                f"the plain object {ref}", {"mode": "layout", "calls": [call, POOL[call['same_as']]]}, _call_name(call)))
                continue
            viols.append(_v("fresh_interpreter_differs", f"{_call_name(call)} gave {rec} alone in a fresh interpreter (other PYTHONHASHSEED) but {ref} in the "
                            "pristine fork: the result depends on more than the arguments", {"mode": "fresh", "calls": [call]}, _call_name(call)))
        return {"n": len(viols), "digest": "fresh", "odigest": "fresh", "violations": viols, "stats": stats.export(), "sample": None}
    if "pair" in task:
        a, b = task["pair"]
        extra = [[copy.deepcopy(POOL[rng.choice(task["pair"])])]] if rng.random() < 0.3 else []
        trace = {"mode": "threads", "clients": [[copy.deepcopy(POOL[a])], [copy.deepcopy(POOL[b])]] + extra,
                 "policy": task["policy"], "schedule": None, "horizon": 8000}
        stats.inc("probe.targeted_warning_pair_runs" if task.get("wfilter") else "probe.targeted_stateful_pair_runs")
    else:
        trace = gen_trace(rng)
    # content of uninitialised memory in this run (own PRNG stream; the pristine references see zeros)
    erng = common.rng_for(task["seed"], ID, task["run"], "mem")
    trace["mem"] = erng.choice([0, 1, 1, 2, 3])
    trace["wfilter"] = task.get("wfilter") or erng.choice(["ignore", "always", "always"])
    if trace["mode"] == "history":
        trace["flat"] = erng.random() < 0.5
    trace["npprint"] = erng.random() < 0.3
    # the wall clock of the run: the same instant as in the references, the next day, or years later
    trace["clock"] = CLOCK0 + erng.choice([0, 86400, 86400, 400 * 86400, 9000 * 86400])
    if trace["mode"] == "history":
        viols, recs, steps = run_history(trace, REFS, stats)
        stats.inc("outcome.history_runs")
        stats.inc("probe.history_calls", len(trace["calls"]))
        key = common.short(repr([c["id"] for c in trace["calls"]]))
        stats.add("nontrivial", "h" + key)
        dig = common.short(repr(recs))
        odig = dig
        sample = {"mode": "history", "calls": [_call_name(c) for c in trace["calls"][:8]], "ncalls": len(trace["calls"]),
                  "steps": steps, "outcomes": [r[0] if r[0] == "ok" else r[1] for r in recs[:8]]}
    else:
        srng = common.rng_for(task["seed"], ID, task["run"], "schedule")
        viols, results, baton, steps = run_threads(trace, REFS, srng, stats)
        for v in viols:
            v["trace"]["schedule"] = baton.replay_list()
        stats.inc("outcome.threaded_runs")
        stats.inc("probe.threaded_calls", sum(len(c) for c in trace["clients"]))
        nsw = sum(1 for s in baton.switches if s[0] > 0)
        if nsw:
            stats.add("nontrivial", "t" + common.short(repr(([[c["id"] for c in cl] for cl in trace["clients"]], baton.switches))))
        stats.add("schedules", common.short(repr([(f, t, s) for _p, f, t, s in baton.switches])))
        stats.inc(f"probe.policy_{trace['policy'][0]}")
        dig = common.short(repr(results) + repr(baton.switches))
        odig = common.short(repr(results))
        sample = {"mode": "threads", "nthreads": len(trace["clients"]), "policy": trace["policy"],
                  "calls": [[_call_name(c) for c in cl][:3] for cl in trace["clients"][:4]],
                  "switches": len(baton.switches), "first_switches": baton.switches[:6], "steps": steps}
    return {"n": 1, "digest": dig, "odigest": odig, "violations": viols, "stats": stats.export(),
            "sample": sample if task["run"] % 41 == 0 else None}


def shrink(trace, still_fails):
    t = copy.deepcopy(trace)
    if t.get("mem") and still_fails({**t, "mem": 0}):
        t["mem"] = 0  # the violation does not need a particular content of uninitialised memory
    if t.get("clock") not in (None, CLOCK0) and still_fails({**t, "clock": CLOCK0}):
        t["clock"] = CLOCK0  # ... nor another wall-clock time
    if t["mode"] == "history":
        calls = t["calls"]
        if len(calls) > 1:
            last = calls[-1]
            head = shr.ddmin_list(calls[:-1], lambda h: still_fails({**t, "calls": h + [last]}))
            t["calls"] = head + [last]
            # maybe the last call alone is not needed (table change caused by one call)
            if len(t["calls"]) > 1 and still_fails({**t, "calls": t["calls"][:-1]}):
                t["calls"] = t["calls"][:-1]
        return t
    # threads: fewer switches first, then fewer clients / calls
    if t.get("schedule"):
        sw = shr.ddmin_list(t["schedule"], lambda s: still_fails({**t, "schedule": s}))
        t["schedule"] = sw
    return t


def coverage_extra(stats, tier):
    return {
        "pool_size": len(POOL) if POOL else None,
        "calls_writing_global_state_when_run_alone": len(STATEFUL),
        "references_crosschecked_in_fresh_interpreters": FRESH_CHECKED,
        "distinct_interleavings": stats.distinct("schedules"),
        "distinct_call_pairs_in_histories": stats.distinct("call_pairs"),
        "simulated_time": "logical steps (LINE events inside iodata) = pre-emption points",
        "fault_kinds_configured": ["context switch at iodata line", "context switch at seam call (open/readline/raw write/close)",
                                   "uninitialised memory content (np.empty / np.empty_like called from iodata return a seeded fill pattern)"],
    }
