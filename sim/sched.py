"""Logical step counter and seeded baton scheduler on top of sys.monitoring (PEP 669).

* Every LINE event inside /repo/iodata (tests excluded) is one logical step: the only clock of
  the simulation.  A per-run budget turns "terminates" into a deterministic, replayable check.
* In threaded runs each client is a real thread parked on its own semaphore; exactly one holds the
  baton.  At every step and at every seam call the running thread asks the scheduler whether to
  yield; the scheduler (seeded PRNG or a recorded switch list) is the only thing that decides who
  runs next.
"""

import os
import sys
import threading

mon = sys.monitoring
TOOL = 4


class StepBudgetExceeded(BaseException):
    """Liveness violation: the call did not finish within its logical step budget."""


class _Monitor:
    def __init__(self):
        self.active = False
        self.prefix = None
        self.steps = 0
        self.budget = None
        self.sched = None
        self.cover = None  # optional set of (filename, line)
        self.installed = False

    def install(self, repo):
        if self.installed:
            return
        self.prefix = os.path.join(os.path.realpath(repo), "iodata") + os.sep
        self.testprefix = self.prefix + "test" + os.sep
        mon.use_tool_id(TOOL, "verif-sim")
        mon.register_callback(TOOL, mon.events.LINE, self._line)
        self.installed = True

    def start(self, budget=None, sched=None, cover=None):
        self.steps = 0
        self.budget = budget
        self.sched = sched
        self.cover = cover
        self.active = True
        mon.set_events(TOOL, mon.events.LINE)

    def stop(self):
        self.active = False
        mon.set_events(TOOL, 0)
        steps = self.steps
        self.sched = None
        self.cover = None
        return steps

    def _line(self, code, lineno):
        fn = code.co_filename
        if not fn.startswith(self.prefix) or fn.startswith(self.testprefix):
            return mon.DISABLE
        if not self.active:
            return None
        self.steps += 1
        if self.cover is not None:
            self.cover.add((fn[len(self.prefix):], lineno))
        if self.budget is not None and self.steps > self.budget:
            self.active = False
            raise StepBudgetExceeded(f"{self.steps} steps at {fn[len(self.prefix):]}:{lineno}")
        if self.sched is not None:
            self.sched.line_point(fn, lineno, code)
        return None


MONITOR = _Monitor()


class GlobalStoreProbe:
    """Passive 'scheduler': counts executed iodata lines that rebind a module-level name."""

    def __init__(self):
        self._gl = {}
        self.hits = 0
        self.sites = set()

    def line_point(self, fn, lineno, code):
        lines = self._gl.get(code)
        if lines is None:
            lines = Baton._global_store_lines(self, code)
        if lineno in lines:
            self.hits += 1
            self.sites.add(f"{os.path.basename(fn)}:{lineno}")

    def seam_point(self, what):
        pass


class Steps:
    """Context manager around one simulated run (single- or multi-threaded)."""

    def __init__(self, budget=None, sched=None, cover=None):
        self.budget, self.sched, self.cover = budget, sched, cover
        self.steps = 0

    def __enter__(self):
        MONITOR.start(self.budget, self.sched, self.cover)
        return self

    def __exit__(self, *exc):
        self.steps = MONITOR.stop()
        return False


# ---------------------------------------------------------------------------------------------


class SchedulerStall(Exception):
    """The clients of a scheduled run stopped making progress (they block on something the scheduler does not own)."""


class _Client:
    __slots__ = ("idx", "fn", "sem", "thread", "done", "result", "error", "prio")

    def __init__(self, idx, fn):
        self.idx = idx
        self.fn = fn
        self.sem = threading.Semaphore(0)
        self.thread = None
        self.done = False
        self.result = None
        self.error = None
        self.prio = 0


class Baton:
    """Seeded cooperative scheduler for real threads.

    policy = ("random", p)   switch with probability p at each pre-emption point
             ("pct", d)      PCT: random priorities, d priority-change points
             ("replay", [[point, to], ...])  recorded switch list
             ("serial",)     never pre-empt (clients run one after another in order)
    A *point* is the global count of pre-emption points (LINE events in iodata + seam calls).
    """

    def __init__(self, rng, policy, horizon=20000):
        self.rng = rng
        self.policy = policy
        self.clients = []
        self.cur = None
        self.points = 0
        self.switches = []  # [point, from, to, site]
        self.sites = []
        self.finished = threading.Event()
        self.inside_api = None  # optional callable(idx) -> bool
        kind = policy[0]
        self._next_switch = None
        self._replay = None
        self._gl = {}
        self._after_store = {}
        self.p_glob = 0.0
        if kind in ("random", "newline", "gstore"):
            self.p = float(policy[1])
            self.p_g = float(policy[2]) if kind == "gstore" else 0.0
            self.p_glob = self.p_g  # the same bias applies to global state reached through seams
            self._draw_next()
            # "newline": additionally pre-empt with probability p_new at every iodata line that is
            # executed for the first time in this run (cold paths: first-use initialisation, memo fills)
            self.p_new = float(policy[2]) if kind == "newline" else 0.0
            self.seen = set()
        elif kind == "pct":
            d = int(policy[1])
            self._change_points = sorted(rng.randrange(1, horizon) for _ in range(d))
        elif kind == "replay":
            self._replay = {int(pt): int(to) for pt, to in policy[1]}
        elif kind == "serial":
            pass
        else:
            raise ValueError(policy)

    def _draw_next(self):
        # geometric gap: one PRNG draw per switch, not per step
        import math

        u = self.rng.random()
        gap = 1 + int(math.log(1.0 - u) / math.log(1.0 - self.p)) if self.p < 1 else 1
        self._next_switch = self.points + gap

    # -- called from client threads ---------------------------------------------------------
    def _global_store_lines(self, code):
        """Line numbers of a code object that rebind a module-level name (STORE_GLOBAL / DELETE_GLOBAL)."""
        lines = self._gl.get(code)
        if lines is None:
            import dis

            lines = set()
            cur = None
            for ins in dis.get_instructions(code):
                if ins.starts_line is not None:
                    cur = ins.starts_line
                if ins.opname in ("STORE_GLOBAL", "DELETE_GLOBAL") and cur is not None:
                    lines.add(cur)
            self._gl[code] = lines
        return lines

    def line_point(self, fn, lineno, code):
        if self.policy[0] == "gstore":
            cur = self.cur
            if cur is not None and threading.current_thread() is cur.thread:
                # the previous line of this client rebound a module-level name: the window between that
                # store and the next use is where races on shared slots live
                if self._after_store.get(cur.idx) and self.rng.random() < self.p_g:
                    self._next_switch = self.points + 1
                self._after_store[cur.idx] = lineno in self._global_store_lines(code)
        if self.policy[0] == "newline":
            key = (fn, lineno)
            if key not in self.seen:
                self.seen.add(key)
                cur = self.cur
                if cur is not None and threading.current_thread() is cur.thread and self.rng.random() < self.p_new:
                    self._next_switch = self.points + 1  # switch right here
        self._point((fn, lineno))

    def seam_point(self, what):
        if self.cur is not None and threading.current_thread() is self.cur.thread:
            if self.p_glob and what.startswith(("global:", "fs:")) and self.rng.random() < self.p_glob:
                # process-global state outside the repository was just saved / replaced / restored (e.g. the warnings
                # machinery): the window before the next use is where non-nested save/restore pairs of two clients bite
                self._next_switch = self.points + 1
            self._point(("seam", what))

    def _point(self, site):
        cur = self.cur
        if cur is None or threading.current_thread() is not cur.thread:
            return
        self.points += 1
        kind = self.policy[0]
        target = None
        if kind in ("random", "newline", "gstore"):
            if self.points >= self._next_switch:
                others = [c for c in self.clients if not c.done and c is not cur]
                self._draw_next()
                if others:
                    target = others[self.rng.randrange(len(others))]
        elif kind == "replay":
            to = self._replay.get(self.points)
            if to is not None:
                cand = self.clients[to]
                if not cand.done and cand is not cur:
                    target = cand
        elif kind == "pct":
            if self._change_points and self.points >= self._change_points[0]:
                self._change_points.pop(0)
                cur.prio = -len(self.switches) - 1  # drop below everything
                others = [c for c in self.clients if not c.done and c is not cur]
                if others:
                    target = max(others, key=lambda c: (c.prio, -c.idx))
        if target is not None:
            self._switch(cur, target, site)

    def _switch(self, cur, target, site):
        if isinstance(site[0], str) and site[0] != "seam":
            s = (os.path.basename(site[0]), site[1])
        else:
            s = site
        self.switches.append([self.points, cur.idx, target.idx, f"{s[0]}:{s[1]}"])
        self.cur = target
        target.sem.release()
        cur.sem.acquire()

    # -- lifecycle ----------------------------------------------------------------------------
    def _body(self, client):
        client.sem.acquire()
        try:
            client.result = client.fn()
        except BaseException as exc:  # noqa: BLE001 - recorded, judged by the oracle
            client.error = exc
        finally:
            client.done = True
            self._pass_on(client)

    def _pass_on(self, client):
        rest = [c for c in self.clients if not c.done]
        if not rest:
            self.cur = None
            self.finished.set()
            return
        kind = self.policy[0]
        if kind in ("random", "newline", "gstore"):
            nxt = rest[self.rng.randrange(len(rest))]
        elif kind == "pct":
            nxt = max(rest, key=lambda c: (c.prio, -c.idx))
        else:
            nxt = rest[0]
            if kind == "replay":
                to = self._replay.get(-(client.idx + 1))
                if to is not None and not self.clients[to].done:
                    nxt = self.clients[to]
        self.switches.append([-(client.idx + 1), client.idx, nxt.idx, "exit"])
        self.cur = nxt
        nxt.sem.release()

    def run(self, fns, timeout=60.0):
        self.clients = [_Client(i, fn) for i, fn in enumerate(fns)]
        if self.policy[0] == "pct":
            prios = list(range(len(fns)))
            self.rng.shuffle(prios)
            for c, p in zip(self.clients, prios):
                c.prio = p
        for c in self.clients:
            c.thread = threading.Thread(target=self._body, args=(c,), name=f"client-{c.idx}", daemon=True)
            c.thread.start()
        kind = self.policy[0]
        if kind in ("random", "newline", "gstore"):
            first = self.clients[self.rng.randrange(len(self.clients))]
        elif kind == "pct":
            first = max(self.clients, key=lambda c: (c.prio, -c.idx))
        elif kind == "replay" and 0 in self._replay:
            first = self.clients[self._replay[0]]
        else:
            first = self.clients[0]
        self.switches.append([0, -1, first.idx, "start"])
        self.cur = first
        first.sem.release()
        # stall = no pre-emption point and no logical step for `timeout` seconds (not: the run takes that long - a
        # loaded machine slows everything down, which must never turn into a verdict)
        import time

        last, since = (self.points, MONITOR.steps), time.monotonic()
        while not self.finished.wait(min(2.0, timeout)):
            now = (self.points, MONITOR.steps)
            if now != last:
                last, since = now, time.monotonic()
            elif time.monotonic() - since >= timeout:
                stuck = [c.idx for c in self.clients if not c.done]
                raise SchedulerStall(f"clients {stuck} made no progress for {timeout:.0f} s of wall-clock time (deadlock among clients, "
                                     f"or a client blocked outside the scheduler's control)")
        for c in self.clients:
            c.thread.join(5.0)
        return self.clients

    def replay_list(self):
        return [[pt, to] for pt, _frm, to, _site in self.switches]


class WallBudgetExceeded(BaseException):
    """No progress for a long wall-clock time inside a call that normally takes milliseconds (self-deadlock)."""


class WallGuard:
    """SIGALRM based guard for the main thread of a worker: lock acquisitions are interruptible by signals, so a
    self-deadlock (a non-reentrant lock taken twice by re-entrant use of the API) surfaces as WallBudgetExceeded
    instead of a worker that hangs until the harness watchdog kills it.  Used only around re-entrant workloads."""

    def __init__(self, seconds=30.0):
        self.seconds = seconds
        self.armed = False

    def _handler(self, signum, frame):
        # fires every quarter of the limit; only a period without a single logical step counts (a slow machine
        # slows the steps down but does not stop them; a thread blocked on its own lock executes nothing)
        now = MONITOR.steps
        if now != self._last:
            self._last, self._idle = now, 0
            return
        self._idle += 1
        if self._idle >= 4:
            raise WallBudgetExceeded(f"no progress (not a single line of the library executed) for {self.seconds:.0f} s of wall-clock time")

    def __enter__(self):
        import signal

        if threading.current_thread() is threading.main_thread():
            self._last, self._idle = MONITOR.steps, 0
            self._old = signal.signal(signal.SIGALRM, self._handler)
            signal.setitimer(signal.ITIMER_REAL, self.seconds / 4, self.seconds / 4)
            self.armed = True
        return self

    def __exit__(self, *exc):
        import signal

        if self.armed:
            signal.setitimer(signal.ITIMER_REAL, 0)
            signal.signal(signal.SIGALRM, self._old)
        return False
