"""Environment dimension "interpreter flags": part of the seeded tasks of a check is executed in `python -O`
(assert statements compiled away), an environment in which user code legitimately runs.

run_optimized(modname, tasks) starts one optimised interpreter, lets it execute mod.run_task on every task and returns the
list of results (pickled over a pipe).  execute_optimized(modname, trace) does the same for the replay of one trace.
"""

import os
import pickle
import subprocess
import sys

from . import common

_CHILD = r"""
import os, pickle, sys
sys.path.insert(0, {verif!r}); sys.path.insert(0, {repo!r})
sys.dont_write_bytecode = True
import importlib, warnings
from sim import common
common.configure(repo={repo!r}, verif={verif!r}, args=None)
mod = importlib.import_module({modname!r})
kind, payload = pickle.load(sys.stdin.buffer)
if getattr(mod, "setup_worker", None):
    mod.setup_worker()
assert False, "this interpreter must run with -O"
if kind == "tasks":
    out = [mod.run_task(t) for t in payload]
else:
    out = mod.execute(payload)
sys.stdout.flush()
with os.fdopen(os.dup(3), "wb") as fh:
    pickle.dump(out, fh)
"""


def _run(modname, kind, payload, timeout=600):
    r, w = os.pipe()
    code = _CHILD.format(verif=common.VERIF, repo=common.REPO, modname=modname)
    env = {**os.environ, "PYTHONHASHSEED": os.environ.get("PYTHONHASHSEED", "0"), "VERIF_IN_PYOPT": "1"}

    def pre():
        os.dup2(w, 3)

    proc = subprocess.Popen([sys.executable, "-O", "-X", "faulthandler", "-c", code], stdin=subprocess.PIPE, stdout=subprocess.DEVNULL,
                            stderr=subprocess.PIPE, env=env, preexec_fn=pre, close_fds=False)
    os.close(w)
    try:
        proc.stdin.write(pickle.dumps((kind, payload)))
        proc.stdin.close()
        with os.fdopen(r, "rb") as fh:
            data = fh.read()
        proc.wait(timeout=timeout)
    except subprocess.TimeoutExpired:
        proc.kill()
        raise RuntimeError("HARNESS: optimised interpreter timed out")
    if proc.returncode != 0 or not data:
        raise RuntimeError(f"HARNESS: optimised interpreter failed ({proc.returncode}): {proc.stderr.read().decode(errors='replace')[-800:]}")
    return pickle.loads(data)


def run_optimized(modname, tasks):
    return _run(modname, "tasks", tasks)


def execute_optimized(modname, trace):
    return _run(modname, "trace", trace)


def merge(results, mark):
    """One pool result out of the results of several tasks; violation traces are marked so that replay re-enters -O."""
    from .common import Stats, short

    stats = Stats()
    viols, n, digs = [], 0, []
    for res in results:
        n += res.get("n", 1)
        stats.merge_export(res["stats"])
        digs.append(res["digest"])
        for v in res["violations"]:
            v["trace"][mark] = True
            v["msg"] += " [interpreter running with -O]"
            viols.append(v)
    stats.inc("probe.runs_in_optimized_interpreter", n)
    return {"n": n, "digest": short(repr(digs)), "violations": viols, "stats": stats.export(), "sample": None}
