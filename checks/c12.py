"""C12 - orbital and shell objects keep their derived quantities consistent.

Same engine as C11 (weakest fit): seeded histories of constructions, assignments and interleaved
observer reads on MolecularOrbitals and Shell; algebraic invariants after every step.
"""

import copy
import sys
import os

import numpy as np

from sim import canon, common
from sim import shrink as shr
from sim.common import Stats

ID = "C12"
LEVEL = "exploration"
DEFAULT_SEED = 1212
BATCH = 4
TASK_TIMEOUT = 600
WALL_CAP = {"quick": 100, "thorough": 2400}
RULE = (
    "One evaluation = one history on a MolecularOrbitals object (kind in restricted/unrestricted/generalized, 0..6 "
    "orbitals, every subset of optional arrays with legal and illegal lengths, contradictory kind/norba/norbb) or on a "
    "Shell (1..4 contractions, l = 0..9, kinds c/p incl. illegal ones, mismatching shapes): construction followed by "
    "0..8 assignments of occs / occsa / occsb / occs_aminusb / coeffs / energies / irreps (legal, wrong length, wrong "
    "rank, None) resp. angmoms / kinds / exponents / coeffs, with observer reads interleaved by the seeded scheduler. "
    "Invariants J1..J8 are evaluated after every step. Non-trivial = at least one interleaved read and one rejected "
    "operation; distinct = hash of the operation list."
)
ASSUMPTIONS = [
    "only operations named in the statement's quantifier are generated (kind/norba/norbb are never re-assigned after construction)",
    "a rejected operation may raise TypeError or ValueError (the statement says 'rejected')",
]
COMPONENTS = {"real": ["iodata.orbitals.MolecularOrbitals", "iodata.basis.Shell", "iodata.attrutils", "attrs"],
              "stub": ["scheduler placing observer reads between mutator steps"]}

MO_READS = ["nelec", "spinpol", "occsa", "occsb", "norb", "nbasis", "coeffsa", "coeffsb", "energiesa", "energiesb", "irrepsa", "irrepsb", "occs"]
OCC_VALUES = {
    0: [[]],
    1: [[2.0], [1.0], [0.0], [0.7], [1.5], [3.0]],
    2: [[2.0, 0.0], [2.0, 1.0], [1.0, 1.0], [1.6, 0.4], [0.0, 0.0], [1.0, 0.0], [0.0, 1.0], [2.0, 2.0],
        [2.0, 0.999999999], [1.9999999999, 1.0000000001], [3.0, 1.0], [2.0, -1.0]],  # (also values no physical state has)
    3: [[2.0, 1.0, 0.0], [2.0, 2.0, 0.0], [1.0, 1.0, 1.0], [1.9, 0.1, 0.0], [2.0, 0.5, 0.5], [1.0, 0.0, 1.0],
        [2.0, 0.999999999, 0.0], [2.0, 1.0, 1e-10],  # almost-integer occupations as read from text files
        [2.0, 3.0, 1.0], [4.0, 2.0, 0.0], [2.0, -1.0, 1.0]],
    4: [[2.0, 2.0, 1.0, 0.0], [1.0, 1.0, 1.0, 0.0], [2.0, 1.0, 1.0, 0.0], [1.99, 1.5, 0.5, 0.01], [1.0, 0.0, 1.0, 0.0]],
    5: [[2.0, 2.0, 1.0, 0.0, 0.0], [1.0, 1.0, 0.0, 1.0, 0.0]],
    6: [[2.0, 2.0, 2.0, 0.0, 0.0, 0.0], [1.0, 1.0, 1.0, 1.0, 0.0, 0.0], [1.0, 1.0, 0.3, 0.7, 0.0, 0.0]],
}
AMINUSB = {
    1: [[1.0], [0.0], [-1.0], [0.3]],
    2: [[0.0, 0.0], [0.0, 1.0], [1.0, 0.0], [-1.0, 0.0], [0.4, -0.4], [-1.0, -1.0]],
    3: [[0.0, 1.0, 0.0], [0.0, -1.0, 0.0], [1.0, 1.0, 1.0], [0.1, -0.1, 0.0]],
    4: [[0.0, 0.0, 1.0, 0.0], [0.0, 0.0, -1.0, 0.0], [1.0, -1.0, 1.0, 0.0]],
}


def _occ(rng, n):
    if n in OCC_VALUES and rng.random() < 0.85:
        return list(rng.choice(OCC_VALUES[n]))
    return [rng.choice([0.0, 1.0, 2.0, 0.5]) for _ in range(n)]


def gen_mo_trace(rng):
    kind = rng.choice(["restricted", "restricted", "unrestricted", "unrestricted", "generalized", "bogus"])
    na = rng.randint(0, 3)
    nb = na if kind == "restricted" else rng.randint(0, 3)
    norba, norbb = na, nb
    r = rng.random()
    if r < 0.12:  # contradictory kind / counts
        if kind == "restricted":
            norbb = na + 1
        elif kind == "generalized":
            norba = 2
        else:
            norba = None
    if kind == "generalized" and r >= 0.12:
        norba = norbb = None
    norb = {"restricted": na, "unrestricted": na + nb, "generalized": rng.randint(0, 4), "bogus": na}[kind]
    nbasis = rng.randint(1, 4)
    kw = {"kind": kind, "norba": norba, "norbb": norbb}
    def maybe_len(n):
        return n if rng.random() < 0.85 else max(0, n + rng.choice([-1, 1, 2]))
    if rng.random() < 0.7:
        kw["occs"] = _occ(rng, maybe_len(norb))
        if rng.random() < 0.08:
            kw["occs"] = {"narrow": rng.choice(["float32", "float16"]), "data": kw["occs"]}
    if rng.random() < 0.5:
        n = maybe_len(norb)
        rows = nbasis * (2 if kind == "generalized" else 1)
        kw["coeffs"] = {"mat": [rows, n]}
    if rng.random() < 0.4:
        kw["energies"] = [round(-1.0 + 0.5 * i, 2) for i in range(maybe_len(norb))]
    if rng.random() < 0.3:
        kw["irreps"] = ["a1"] * maybe_len(norb)
    if rng.random() < 0.25:
        n = maybe_len(norb)
        kw["occs_aminusb"] = list(rng.choice(AMINUSB[n])) if n in AMINUSB else [0.0] * n
    ops = [{"who": "mut", "op": "construct", "kwargs": kw}]
    for _ in range(rng.randint(0, 8)):
        if rng.random() < 0.3:
            ops.append({"who": "obs", "op": "read", "attr": rng.choice(MO_READS)})
            continue
        if kind == "restricted" and rng.random() < 0.06:
            # orbital counts that contradict the kind must be rejected at assignment as well
            ops.append({"who": "mut", "op": "set", "attr": rng.choice(["norba", "norbb"]), "value": na + rng.choice([-1, 0, 1, 2])})
            continue
        attr = rng.choice(["occs", "occsa", "occsa", "occsb", "occsb", "occs_aminusb", "coeffs", "energies", "irreps"])
        half = na if attr == "occsa" else nb if attr == "occsb" else norb
        if kind == "restricted":
            half = na
        n = half if rng.random() < 0.8 else max(0, half + rng.choice([-1, 1]))
        if rng.random() < 0.08:
            val = None
        elif attr in ("occs", "occsa", "occsb"):
            val = _occ(rng, n)
            if attr != "occs":
                val = [min(v, 1.0) for v in val]
        elif attr == "occs_aminusb":
            val = list(rng.choice(AMINUSB[n])) if n in AMINUSB else [0.0] * n
        elif attr == "coeffs":
            val = {"mat": [nbasis, n]} if rng.random() < 0.85 else {"vec": n}
        elif attr == "energies":
            val = [round(-2.0 + 0.25 * i, 2) for i in range(n)]
        else:
            val = ["b2"] * n
        op = {"who": "mut", "op": "set", "attr": attr, "value": val}
        if attr in ("occsa", "occsb") and val is not None and rng.random() < 0.3:
            op["scribble"] = True  # the caller reuses its buffer after the assignment
        ops.append(op)
    return {"target": "mo", "ops": ops}


def gen_shell_trace(rng):
    ncon = rng.randint(1, 4)
    nexp = rng.randint(1, 3)
    def kinds_for(angs):
        out = []
        for l in angs:
            r = rng.random()
            out.append("c" if r < 0.5 else "p" if r < 0.95 else rng.choice(["x", "C", ""]))
        return out
    angs = [rng.randint(0, 9) for _ in range(ncon)]
    if rng.random() < 0.15:
        angs = [rng.choice([7, 8, 9, 9]) for _ in range(ncon)]  # many functions per shell
    kw = {"icenter": rng.randint(0, 3), "angmoms": angs, "kinds": kinds_for(angs),
          "exponents": [round(10.0 / (i + 1), 3) for i in range(nexp)], "coeffs": {"mat": [nexp, ncon]}}
    if rng.random() < 0.15:
        kw["angmoms"] = {"narrow": rng.choice(["int8", "int16", "uint8"]), "data": angs}
    r = rng.random()
    if r < 0.1:
        kw["angmoms"] = angs + [1]
    elif r < 0.2:
        kw["kinds"] = kw["kinds"][:-1]
    elif r < 0.3:
        kw["exponents"] = kw["exponents"] + [0.1]
    elif r < 0.4:
        kw["coeffs"] = {"mat": [nexp + 1, ncon]}
    elif r < 0.45:
        kw["coeffs"] = {"vec": nexp}
    ops = [{"who": "mut", "op": "construct", "kwargs": kw}]
    for _ in range(rng.randint(0, 4)):
        if rng.random() < 0.35:
            ops.append({"who": "obs", "op": "read", "attr": rng.choice(["nbasis", "nexp", "ncon"])})
            continue
        attr = rng.choice(["angmoms", "kinds", "exponents", "coeffs"])
        n = ncon if rng.random() < 0.7 else ncon + rng.choice([-1, 1])
        n = max(0, n)
        if attr == "angmoms":
            val = [rng.randint(0, 9) for _ in range(n)]
        elif attr == "kinds":
            val = [rng.choice(["c", "p"]) for _ in range(n)]
        elif attr == "exponents":
            m = nexp if rng.random() < 0.7 else nexp + 1
            val = [round(5.0 / (i + 1), 3) for i in range(m)]
        else:
            val = {"mat": [nexp if rng.random() < 0.8 else nexp + 1, n]}
        if attr != "coeffs" and rng.random() < 0.12:
            # a scalar where a one-dimensional array belongs (most tempting when the count is one)
            val = {"scalar": {"angmoms": 2, "kinds": "p", "exponents": 0.5}[attr]}
        ops.append({"who": "mut", "op": "set", "attr": attr, "value": val})
    if rng.random() < 0.12:
        a_ = rng.choice(["angmoms", "kinds", "exponents"])
        kw[a_] = {"scalar": {"angmoms": 2, "kinds": "p", "exponents": 0.5}[a_]}
        if a_ != "exponents" and rng.random() < 0.7:
            kw["coeffs"] = {"mat": [nexp, 1]}
        elif a_ == "exponents" and rng.random() < 0.7:
            kw["coeffs"] = {"mat": [1, ncon]}
    return {"target": "shell", "ops": ops}


def mk(v):
    if isinstance(v, dict) and "scalar" in v:
        return v["scalar"]
    if isinstance(v, dict) and "narrow" in v:
        return np.array(v["data"], dtype=v["narrow"])  # a caller-supplied array of a narrow dtype
    if isinstance(v, dict) and "mat" in v:
        r, c = v["mat"]
        return np.arange(r * c, dtype=float).reshape(r, c) * 0.1 + 0.05
    if isinstance(v, dict) and "vec" in v:
        return np.arange(v["vec"], dtype=float)
    if isinstance(v, list) and v and isinstance(v[0], str):
        return np.array(v)
    if isinstance(v, list):
        if v and isinstance(v[0], int) and not isinstance(v[0], bool):
            return np.array(v)
        return np.array(v, dtype=float)
    return v


def view(obj, names):
    c = copy.deepcopy(obj)
    out = {}
    for n in names:
        try:
            out[n] = canon.canon(getattr(c, n))
        except Exception as exc:  # noqa: BLE001
            out[n] = ("raises", type(exc).__name__)
    return out


MO_VIEW = ["kind", "norba", "norbb", "occs", "coeffs", "energies", "irreps", "occs_aminusb"] + MO_READS
SH_VIEW = ["icenter", "angmoms", "kinds", "exponents", "coeffs", "nbasis", "nexp", "ncon"]


def _v(cls, msg, trace, k, extra=""):
    t = copy.deepcopy(trace)
    t["ops"] = t["ops"][: k + 1]
    return {"cls": cls, "sig": f"{cls}|{trace['target']}|{extra}", "msg": f"step {k}: {msg}", "trace": t}


def mo_invariants(mo, trace, k, out):
    try:
        _mo_invariants(mo, trace, k, out)
    except Exception as exc:  # noqa: BLE001 - an accepted object whose own accessors crash is inconsistent
        out.append(_v("J0_accessor_crashes", f"derived quantities of an accepted object raise {type(exc).__name__}: {exc}", trace, k, type(exc).__name__))


def _mo_invariants(mo, trace, k, out):
    _mo_invariants_on(copy.deepcopy(mo), trace, k, out)
    n0 = len(out)
    _mo_invariants_on(mo, trace, k, out)  # the object itself: values cached inside it are not part of a deep copy
    del out[n0 + 1:]


def _mo_invariants_on(c, trace, k, out):
    kind = c.kind
    if kind == "generalized":
        for name in ("occsa", "occsb", "coeffsa", "coeffsb", "energiesa", "energiesb", "irrepsa", "irrepsb", "spinpol"):
            try:
                getattr(c, name)
                out.append(_v("J6_generalized_spin_access", f"generalized orbitals answered {name}", trace, k, name))
            except NotImplementedError:
                pass
        for name in ("nelec", "norb", "nbasis"):
            try:
                getattr(c, name)
            except Exception as exc:  # noqa: BLE001
                out.append(_v("J6_generalized_combined", f"generalized orbitals: {name} raised {type(exc).__name__}", trace, k, name))
        if c.occs is not None and not np.isclose(c.nelec, c.occs.sum()):
            out.append(_v("J2_nelec", f"nelec {c.nelec} != sum(occs) {c.occs.sum()}", trace, k))
        return
    na = c.norba
    if c.occs is not None:
        a, b = c.occsa, c.occsb
        if kind == "restricted":
            if a.shape != c.occs.shape or not np.allclose(a + b, c.occs):
                out.append(_v("J1_occ_sum", f"occsa {a} + occsb {b} != occs {c.occs}", trace, k, kind))
        else:
            if not np.allclose(np.concatenate([a, b]), c.occs):
                out.append(_v("J1_occ_sum", f"[occsa, occsb] {a} {b} != occs {c.occs}", trace, k, kind))
        if not np.isclose(c.nelec, a.sum() + b.sum()) or not np.isclose(c.nelec, c.occs.sum()):
            out.append(_v("J2_nelec", f"nelec {c.nelec} != {a.sum()} + {b.sum()}", trace, k, kind))
        sp = c.spinpol
        if not np.isclose(sp, abs(a.sum() - b.sum())):
            out.append(_v("J3_spinpol", f"spinpol {sp} != |sum(occsa) {a.sum()} - sum(occsb) {b.sum()}|", trace, k,
                          kind + ("/aminusb" if c.occs_aminusb is not None else "")))
    else:
        for name in ("occsa", "occsb", "nelec", "spinpol"):
            if getattr(c, name) is not None:
                out.append(_v("J2_nelec", f"{name} is {getattr(c, name)} although occs is None", trace, k, name))
    for base, aname, bname in (("coeffs", "coeffsa", "coeffsb"), ("energies", "energiesa", "energiesb"), ("irreps", "irrepsa", "irrepsb")):
        full = getattr(c, base)
        av, bv = getattr(c, aname), getattr(c, bname)
        if full is None:
            if av is not None or bv is not None:
                out.append(_v("J4_slices", f"{aname}/{bname} not None although {base} is None", trace, k, base))
            continue
        if kind == "restricted":
            ea, eb = full, full
        elif base == "coeffs":
            ea, eb = full[:, :na], full[:, na:]
        else:
            ea, eb = full[:na], full[na:]
        if canon.canon(np.asarray(av)) != canon.canon(np.asarray(ea)) or canon.canon(np.asarray(bv)) != canon.canon(np.asarray(eb)):
            out.append(_v("J4_slices", f"{aname}/{bname} are not the documented slices of {base}", trace, k, base))
    # declared lengths
    norb = c.norb
    for name in ("occs", "energies", "irreps", "occs_aminusb"):
        v = getattr(c, name)
        if v is not None and len(v) != norb:
            out.append(_v("J7_length_accepted", f"{name} has length {len(v)} but norb is {norb}", trace, k, name))
    if c.coeffs is not None and (c.coeffs.ndim != 2 or c.coeffs.shape[1] != norb):
        out.append(_v("J7_length_accepted", f"coeffs has shape {c.coeffs.shape} but norb is {norb}", trace, k, "coeffs"))
    if kind == "restricted" and c.norba != c.norbb:
        out.append(_v("J7_kind_contradiction", f"restricted with norba {c.norba} != norbb {c.norbb}", trace, k))
    if kind != "restricted" and c.occs_aminusb is not None:
        out.append(_v("J7_kind_contradiction", f"{kind} orbitals with occs_aminusb", trace, k))


def shell_nbasis(angmoms, kinds):
    tot = 0
    for l, kd in zip(angmoms, kinds):
        if kd == "c":
            tot += (l + 1) * (l + 2) // 2
        elif kd == "p" and l >= 2:
            tot += 2 * l + 1
        else:
            return None  # illegal combination
    return tot


def shell_invariants(sh, trace, k, out):
    try:
        _shell_invariants(sh, trace, k, out)
    except Exception as exc:  # noqa: BLE001
        out.append(_v("J0_accessor_crashes", f"derived quantities of an accepted shell raise {type(exc).__name__}: {exc}", trace, k, type(exc).__name__))


def _shell_invariants(sh, trace, k, out):
    _shell_invariants_on(copy.deepcopy(sh), trace, k, out)
    n0 = len(out)
    _shell_invariants_on(sh, trace, k, out)  # the object itself (see _mo_invariants)
    del out[n0 + 1:]


def _shell_invariants_on(c, trace, k, out):
    nexp, ncon = c.coeffs.shape if c.coeffs.ndim == 2 else (None, None)
    if c.coeffs.ndim != 2 or len(c.angmoms) != ncon or len(c.kinds) != ncon or len(c.exponents) != nexp:
        out.append(_v("J7_shape_accepted", f"shell with angmoms {len(c.angmoms)}, kinds {len(c.kinds)}, exponents {len(c.exponents)}, coeffs {c.coeffs.shape}", trace, k))
        return
    expect = shell_nbasis([int(x) for x in c.angmoms], [str(x) for x in c.kinds])
    try:
        got = c.nbasis
    except Exception as exc:  # noqa: BLE001
        if expect is not None:
            out.append(_v("J9_nbasis", f"nbasis raised {type(exc).__name__} for legal angmoms {list(c.angmoms)} kinds {list(c.kinds)}", trace, k))
        return
    if expect is None:
        out.append(_v("J9_nbasis", f"nbasis returned {got} for an illegal kind/angmom combination {list(c.angmoms)} {list(c.kinds)}", trace, k))
    elif got != expect:
        out.append(_v("J9_nbasis", f"nbasis {got} != {expect} for angmoms {list(c.angmoms)} kinds {list(c.kinds)}", trace, k))
    if c.nexp != nexp or c.ncon != ncon:
        out.append(_v("J9_nbasis", f"nexp/ncon {c.nexp}/{c.ncon} != coeffs shape {c.coeffs.shape}", trace, k))


def run_ops(trace, with_observer=True):
    from iodata.basis import Shell
    from iodata.orbitals import MolecularOrbitals

    out = []
    target = trace["target"]
    names = MO_VIEW if target == "mo" else SH_VIEW
    obj = None
    info = {"rejected": 0, "reads": 0}
    mut = []
    for k, op in enumerate(trace["ops"]):
        if op["who"] == "obs":
            if not with_observer or obj is None:
                continue
            info["reads"] += 1
            before = view(obj, names)
            try:
                v1 = canon.canon(getattr(obj, op["attr"]))
            except Exception as exc:  # noqa: BLE001
                v1 = ("raises", type(exc).__name__)
            try:
                v2 = canon.canon(getattr(obj, op["attr"]))
            except Exception as exc:  # noqa: BLE001
                v2 = ("raises", type(exc).__name__)
            after = view(obj, names)
            if v1 != v2:
                out.append(_v("J8_read_not_idempotent", f"reading {op['attr']} twice: {v1} then {v2}", trace, k, op["attr"]))
            if before != after:
                out.append(_v("J8_read_changes_state", f"reading {op['attr']} changed {[n for n in before if before[n] != after[n]]}", trace, k, op["attr"]))
            continue
        if op["op"] == "construct":
            kw = {a: mk(v) for a, v in op["kwargs"].items()}
            try:
                obj = MolecularOrbitals(**kw) if target == "mo" else Shell(**kw)
                mut.append("ok")
            except Exception as exc:  # noqa: BLE001 - "rejected": the statement does not name the exception type
                info["rejected"] += 1
                mut.append(type(exc).__name__)
                return out, mut, info
            for a_, v_ in op["kwargs"].items():
                if isinstance(v_, dict) and "scalar" in v_:
                    out.append(_v("J10_scalar_accepted", f"constructed with {a_}={v_['scalar']!r}: a scalar where a one-dimensional array belongs was accepted", trace, k, a_))
            (mo_invariants if target == "mo" else shell_invariants)(obj, trace, k, out)
            continue
        if obj is None:
            continue
        attr, val = op["attr"], mk(op["value"])
        before = view(obj, names)
        other_before = None
        if target == "mo" and attr in ("occsa", "occsb") and obj.kind != "generalized":
            try:
                ob = getattr(copy.deepcopy(obj), "occsb" if attr == "occsa" else "occsa")
                other_before = None if ob is None else np.array(ob)
            except Exception:  # noqa: BLE001
                other_before = None
        try:
            setattr(obj, attr, val)
            raised = None
        except Exception as exc:  # noqa: BLE001 - "rejected": the statement does not name the exception type
            raised = exc
        after = view(obj, names)
        if raised is not None:
            info["rejected"] += 1
            mut.append(type(raised).__name__)
            if before != after:
                out.append(_v("J7_rejected_assignment_changed_state", f"{attr}={op['value']} raised {type(raised).__name__} but changed {[n for n in before if before[n] != after[n]]}", trace, k, attr))
            if target == "mo" and obj.kind == "generalized" and attr in ("occsa", "occsb") and not isinstance(raised, NotImplementedError):
                out.append(_v("J6_generalized_spin_access", f"{attr} assignment on generalized orbitals raised {type(raised).__name__}", trace, k, attr))
            continue
        mut.append("ok")
        if isinstance(op["value"], dict) and "scalar" in op["value"]:
            out.append(_v("J10_scalar_accepted", f"{attr}={op['value']['scalar']!r}: a scalar where a one-dimensional array belongs was accepted", trace, k, attr))
        if target == "mo" and attr in ("norba", "norbb"):
            if obj.kind == "restricted" and obj.norba != obj.norbb:
                out.append(_v("J7_kind_contradiction", f"{attr}={op['value']} accepted: restricted orbitals with norba {obj.norba} != norbb {obj.norbb}", trace, k, attr))
            continue
        if target == "mo" and op.get("scribble") and isinstance(val, np.ndarray) and val.size and obj.kind != "generalized":
            kept = np.array(val)
            val[...] = 7.75  # the caller overwrites its own buffer
            c = copy.deepcopy(obj)
            got = getattr(c, attr)
            if len(kept) == (c.norba if (attr == "occsa" or c.kind == "restricted") else c.norbb) and \
                    (got is None or got.shape != kept.shape or not np.allclose(got, kept)):
                out.append(_v("J5_spin_occ_aliases_caller_buffer", f"{attr}={list(kept)} assigned, then the caller reused its buffer: {attr} now reads {None if got is None else list(got)}", trace, k, attr))
            val = kept
        if target == "mo":
            if obj.kind == "generalized" and attr in ("occsa", "occsb"):
                out.append(_v("J6_generalized_spin_access", f"{attr} assignment accepted on generalized orbitals", trace, k, attr))
            if attr in ("occsa", "occsb") and val is not None and obj.kind != "generalized":
                c = copy.deepcopy(obj)
                got = getattr(c, attr)
                nexp_ = c.norba if (attr == "occsa" or c.kind == "restricted") else c.norbb
                if len(val) != nexp_:
                    out.append(_v("J7_length_accepted", f"{attr} of length {len(val)} accepted although there are {nexp_} such orbitals", trace, k, attr))
                elif got is None or got.shape != val.shape or not np.allclose(got, val):
                    out.append(_v("J5_spin_occ_readback", f"{attr}={list(val)} assigned but reads back {None if got is None else list(got)}", trace, k, attr))
                other = getattr(c, "occsb" if attr == "occsa" else "occsa")
                if other_before is not None and len(val) == nexp_ and (other is None or other.shape != other_before.shape or not np.allclose(other, other_before)):
                    out.append(_v("J5_other_spin_changed", f"{attr} assignment changed the other spin: {list(other_before)} -> {None if other is None else list(other)}", trace, k, attr))
            mo_invariants(obj, trace, k, out)
        else:
            shell_invariants(obj, trace, k, out)
    return out, mut, info


def setup_worker():
    from sim import sched

    sched.MONITOR.install(common.REPO)


BACKGROUND = [{"file": "h2o_sto3g.wfn"}, {"file": "he_s_orbital.wfn"}, {"file": "lih_cation_uhf.wfn"}, {"file": "h2o_sto3g.fchk"},
              {"file": "h2_sto3g.mkl"}, {"file": "lih_cation_uhf.wfx"}, {"file": "h2o.molden.input"}, {"file": "water.xyz"}]


def run_shared(trace, rng=None):
    """Two clients on ONE unrestricted MolecularOrbitals object, one assigning alpha and one beta occupations (each a few
    times): the two halves are independent registers - in the end each spin must read what its own client assigned last
    ("assigning alpha or beta occupations reads back as assigned while leaving the other spin unchanged", under any
    interleaving of the two writers)."""
    from iodata.orbitals import MolecularOrbitals

    from sim import sched

    sh = trace["shared_mo"]
    na, nb = sh["norba"], sh["norbb"]
    mo = MolecularOrbitals("unrestricted", na, nb, occs=np.zeros(na + nb))
    policy = tuple(trace["policy"])
    if trace.get("schedule") is not None:
        policy = ("replay", trace["schedule"])
    baton = sched.Baton(rng, policy, horizon=2000)

    def writer(attr, values):
        def body():
            for v in values:
                setattr(mo, attr, np.array(v, dtype=float))
        return body

    with sched.Steps(budget=1_000_000, sched=baton) as st:
        done = baton.run([writer("occsa", sh["alpha"]), writer("occsb", sh["beta"])])
    out = []
    for c in done:
        if c.error is not None:
            out.append({"cls": "T0_client_died", "sig": f"T0_client_died|{type(c.error).__name__}", "msg": f"client {c.idx} died: {type(c.error).__name__}: {c.error}", "trace": copy.deepcopy(trace)})
    if not out:
        ga, gb = np.array(mo.occsa), np.array(mo.occsb)
        if not (np.array_equal(ga, np.array(sh["alpha"][-1], float)) and np.array_equal(gb, np.array(sh["beta"][-1], float))):
            out.append({"cls": "T2_assignment_lost", "sig": "T2_assignment_lost|", "trace": copy.deepcopy(trace),
                        "msg": f"one client assigned occsa {sh['alpha']}, the other occsb {sh['beta']} (in this order each); in the end occsa reads {ga.tolist()} and occsb {gb.tolist()}"})
    return out, baton, st.steps


def run_threads(trace, rng=None):
    """Histories on distinct MolecularOrbitals / Shell objects in real threads under the baton scheduler, optionally
    next to a client that loads a file through the API: every client's outcomes must equal its solo run."""
    from sim import sched

    hists = trace["histories"]
    solo = [run_ops(h, True)[1] for h in hists]
    policy = tuple(trace["policy"])
    if trace.get("schedule") is not None:
        policy = ("replay", trace["schedule"])
    baton = sched.Baton(rng, policy, horizon=3000)
    got = [None] * len(hists)

    def make(i):
        def body():
            got[i] = run_ops(hists[i], True)[1]
        return body

    fns = [make(i) for i in range(len(hists))]
    bg = trace.get("background")
    if bg:
        def background():
            import warnings

            import iodata

            with warnings.catch_warnings():
                warnings.simplefilter("ignore")
                try:
                    iodata.load_one(os.path.join(common.DATA, bg["file"]), fmt=bg.get("fmt"))
                except Exception:  # noqa: BLE001
                    pass
        fns.append(background)
    # (step budget: a livelock among the clients ends as a StepBudgetExceeded death of a client, not as a hang)
    with sched.Steps(budget=3_000_000, sched=baton) as st:
        done = baton.run(fns)
    out = []
    for c in done[: len(hists)]:
        if c.error is not None:
            out.append({"cls": "T0_client_died", "sig": f"T0_client_died|{type(c.error).__name__}",
                        "msg": f"client {c.idx} died under interleaving: {type(c.error).__name__}: {c.error}", "trace": copy.deepcopy(trace)})
    for i, (a, b) in enumerate(zip(got, solo)):
        if a is not None and a != b:
            out.append({"cls": "T1_outcome_differs_under_interleaving", "sig": "T1_outcome_differs_under_interleaving|",
                        "msg": f"client {i}: mutator outcomes {a} under interleaving but {b} alone (distinct objects!)", "trace": copy.deepcopy(trace)})
    return out, baton, st.steps


def execute(trace):
    if "shared_mo" in trace:
        return run_shared(trace, rng=common.rng_for("replay"))[0]
    if trace.get("pyopt") and not sys.flags.optimize:
        from sim import pyopt

        return pyopt.execute_optimized("checks.c12", trace)
    if "histories" in trace:
        return run_threads(trace, rng=common.rng_for("replay"))[0]
    return run_ops(trace, True)[0]


def _spaces(tier):
    """Bounded exhaustive sub-spaces: (name, constructions, operations, depth).  Restricted and unrestricted
    orbitals with 1..3 orbitals per spin, every occupation pattern of the alphabets (with/without occs_aminusb,
    None), all sequences of occs/occsa/occsb/occs_aminusb assignments (incl. one wrong length each) up to depth."""
    spaces = []
    for kind in ("restricted", "unrestricted"):
        for n in (1, 2, 3):
            norb = n if kind == "restricted" else 2 * n
            occ_vals = [None] + [list(v) for v in OCC_VALUES.get(norb, [])]
            am_vals = [None] + ([list(v) for v in AMINUSB.get(n, [])] if kind == "restricted" else [])
            cons = []
            for o in occ_vals:
                for a in am_vals:
                    kw = {"kind": kind, "norba": n, "norbb": n}
                    if o is not None:
                        kw["occs"] = o
                    if a is not None:
                        kw["occs_aminusb"] = a
                    cons.append(kw)
            spin_vals = []
            for v in OCC_VALUES.get(n, []):
                w = [min(x, 1.0) for x in v]
                if w not in spin_vals:
                    spin_vals.append(w)
            ops = []
            for v in occ_vals[1:]:
                ops.append({"who": "mut", "op": "set", "attr": "occs", "value": v})
            for attr in ("occsa", "occsb"):
                for v in spin_vals:
                    ops.append({"who": "mut", "op": "set", "attr": attr, "value": v})
                ops.append({"who": "mut", "op": "set", "attr": attr, "value": [0.5] * (n + 1)})  # wrong length
            for v in (AMINUSB.get(n, []) if kind == "restricted" else AMINUSB.get(norb, [])[:2]):
                ops.append({"who": "mut", "op": "set", "attr": "occs_aminusb", "value": list(v)})
            ops.append({"who": "mut", "op": "set", "attr": "occs", "value": [1.0] * (norb + 1)})  # wrong length
            ops.append({"who": "mut", "op": "set", "attr": "occs", "value": None})
            ops.append({"who": "obs", "op": "read", "attr": "spinpol"})
            if tier == "quick":
                depth = 2 if n <= 2 else 1
            else:
                depth = 3 if n == 1 else 2
            spaces.append((f"{kind} n={n} depth<={depth}", cons, ops, depth))
    return spaces


def _space_total(cons, ops, depth):
    return len(cons) * sum(len(ops) ** d for d in range(depth + 1))


def exhaustive_histories(tier, si, lo, hi):
    import itertools

    _name, cons, ops, depth = _spaces(tier)[si]
    seqs = [()]
    for d in range(1, depth + 1):
        seqs += list(itertools.product(range(len(ops)), repeat=d))
    total = len(cons) * len(seqs)
    for idx in range(lo, min(hi, total)):
        ci, qi = divmod(idx, len(seqs))
        yield {"target": "mo", "ops": [{"who": "mut", "op": "construct", "kwargs": cons[ci]}] + [ops[j] for j in seqs[qi]]}


def plan(tier, seed, args):
    n = args.runs or (1500 if tier == "quick" else 30000)
    tasks = []
    run = 0
    if args.only != "seeded":
        for si, (_name, cons, ops, depth) in enumerate(_spaces(tier)):
            total = _space_total(cons, ops, depth)
            for lo in range(0, total, 4000):
                tasks.append({"run": run, "seed": seed, "tier": tier, "exh": [si, lo, lo + 4000]})
                run += 1
    if args.only != "exhaustive":
        for _ in range(n):
            tasks.append({"run": run, "seed": seed, "tier": tier, "n": 40})
            run += 1
        # the same kind of seeded histories in an interpreter started with -O (fresh run ids): chunks of 25 tasks per interpreter
        first = run
        nopt = max(25, n // 6)
        for lo in range(0, nopt, 25):
            tasks.append({"run": first + lo, "seed": seed, "tier": tier, "n": 40, "pyopt": True, "sub": list(range(first + lo, first + min(lo + 25, nopt)))})
        run = first + nopt
        for _ in range(n // 6):
            tasks.append({"run": run, "seed": seed, "tier": tier, "threads": 10})
            run += 1
    return tasks


def run_task(task):
    if task.get("pyopt") and not sys.flags.optimize:
        # environment dimension: the same seeded tasks in an interpreter started with -O (no assert statements)
        from sim import pyopt

        sub = [{k: v for k, v in task.items() if k not in ("pyopt", "sub")} | {"run": r} for r in task["sub"]]
        return pyopt.merge(pyopt.run_optimized("checks.c12", sub), "pyopt")
    rng = common.rng_for(task["seed"], ID, task["run"])
    stats = Stats()
    viols = []
    dig = []
    sample = None
    if "threads" in task:
        for j in range(task["threads"]):
            if j % 3 == 2:
                # one shared object, two writers of disjoint halves
                na, nb = rng.randint(1, 3), rng.randint(1, 3)
                vals = lambda n_: [[round(rng.choice([0.0, 1.0, 0.25, 0.5]) + 0.001 * (t_ + 1), 3) for _ in range(n_)] for t_ in range(rng.randint(1, 3))]  # noqa: E731
                trace = {"shared_mo": {"norba": na, "norbb": nb, "alpha": vals(na), "beta": vals(nb)},
                         "policy": rng.choice([["random", 0.2], ["random", 0.05], ["newline", 0.05, 0.3], ["pct", 2]]), "schedule": None}
                srng = common.rng_for(task["seed"], ID, task["run"], j, "schedule")
                vs, baton, steps = run_shared(trace, srng)
                for v in vs:
                    v["trace"]["schedule"] = baton.replay_list()
                viols.extend(vs)
                stats.inc("outcome.shared_object_runs")
                stats.inc("steps", steps)
                stats.add("schedules", common.short(repr(baton.switches)))
                dig.append((common.short(common.jdump(trace)), len(vs), common.short(repr(baton.switches))))
                continue
            r = rng.random()
            policy = ["random", rng.choice([0.01, 0.05, 0.2])] if r < 0.6 else ["newline", 0.01, rng.choice([0.1, 0.3])] if r < 0.8 else ["pct", rng.choice([1, 2, 3])]
            trace = {"histories": [gen_mo_trace(rng) if rng.random() < 0.7 else gen_shell_trace(rng) for _ in range(rng.choice([1, 2, 2]))],
                     "policy": policy, "schedule": None, "target": "threads"}
            if rng.random() < 0.7:
                trace["background"] = rng.choice(BACKGROUND)
            srng = common.rng_for(task["seed"], ID, task["run"], j, "schedule")
            vs, baton, steps = run_threads(trace, srng)
            for v in vs:
                v["trace"]["schedule"] = baton.replay_list()
            viols.extend(vs)
            nsw = sum(1 for sw in baton.switches if sw[0] > 0)
            stats.inc("outcome.threaded_runs")
            stats.inc("probe.switches_inside_iodata", nsw)
            stats.inc("steps", steps)
            if nsw:
                stats.add("nontrivial", common.short(common.jdump(trace) + repr(baton.switches)))
            stats.add("schedules", common.short(repr(baton.switches)))
            dig.append((common.short(common.jdump(trace)), len(vs), common.short(repr(baton.switches))))
        return {"n": task["threads"], "digest": common.short(repr(dig)), "violations": viols, "stats": stats.export(), "sample": None}
    if "exh" in task:
        traces = exhaustive_histories(task["tier"], *task["exh"])
        stats.add("exhaustive_spaces", _spaces(task["tier"])[task["exh"][0]][0])
    else:
        traces = ((gen_mo_trace(rng) if rng.random() < 0.7 else gen_shell_trace(rng)) for _ in range(task["n"]))
    ntr = 0
    for trace in traces:
        ntr += 1
        if "exh" in task:
            stats.inc("probe.exhaustive_histories")
        vs, mut, info = run_ops(trace, True)
        viols.extend(vs)
        stats.inc(f"outcome.{trace['target']}_histories")
        stats.inc("probe.rejected_operations", info["rejected"])
        stats.inc("probe.observer_reads", info["reads"])
        stats.inc("steps", len(trace["ops"]))
        h = common.short(common.jdump(trace))
        stats.add("histories", h)
        if info["reads"] and info["rejected"]:
            stats.add("nontrivial", h)
        kw = trace["ops"][0]["kwargs"]
        if trace["target"] == "mo":
            stats.add("mo_kinds", f"{kw['kind']}/{'aminusb' if 'occs_aminusb' in kw else 'plain'}")
        dig.append((h, len(vs), tuple(mut)))
        if sample is None and task["run"] % 89 == 0 and info["reads"] and info["rejected"]:
            sample = {"target": trace["target"], "ops": trace["ops"], "mutator_outcomes": mut}
    return {"n": ntr, "digest": common.short(repr(dig)), "violations": viols, "stats": stats.export(), "sample": sample}


def shrink(trace, still_fails):
    t = copy.deepcopy(trace)
    if "histories" in t or "shared_mo" in t:
        if t.get("schedule"):
            t["schedule"] = shr.ddmin_list(t["schedule"], lambda sc: still_fails({**t, "schedule": sc}))
        return t
    head, rest = t["ops"][:1], t["ops"][1:]
    rest = shr.ddmin_list(rest, lambda r: still_fails({**t, "ops": head + r}))
    t["ops"] = head + rest
    kw = t["ops"][0]["kwargs"]
    for a in list(kw):
        if a in ("kind", "norba", "norbb", "icenter", "angmoms", "kinds", "exponents", "coeffs") and t["target"] == "shell":
            continue
        if a in ("kind", "norba", "norbb"):
            continue
        t2 = copy.deepcopy(t)
        del t2["ops"][0]["kwargs"][a]
        if still_fails(t2):
            t = t2
    return t


def coverage_extra(stats, tier):
    return {
        "distinct_states": stats.distinct("histories"),
        "exhaustive_subspaces": sorted(stats.s.get("exhaustive_spaces", [])),
        "exhaustive_histories": stats.c.get("probe.exhaustive_histories", 0),
        "exhaustive_note": "the listed sub-spaces (kind x orbitals per spin x every occupation pattern of the alphabets x all assignment "
                           "sequences up to that depth) are enumerated completely; larger orbital counts, shells and deeper histories are seeded sampling",
        "fault_kinds_configured": ["rejected construction/assignment (validators)", "observer read interleaved between mutator steps"],
        "simulated_time": "operations (one step = one construct/assign/read)",
    }
