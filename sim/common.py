"""Shared configuration, seed derivation and small helpers."""

import hashlib
import json
import os
import random

REPO = "/repo"
VERIF = "/verif"
ARGS = None
DATA = None  # corpus directory


def configure(repo, verif, args=None):
    global REPO, VERIF, ARGS, DATA
    REPO, VERIF, ARGS = repo, verif, args
    DATA = os.path.join(repo, "iodata", "test", "data")


def base_seed(default):
    val = os.environ.get("VERIF_SEED")
    if val is None or val == "":
        return int(default)
    return int(val)


def derive_int(*parts):
    """Integer derived from a tuple of printable parts: independent of PYTHONHASHSEED, workers."""
    text = "/".join(str(p) for p in parts)
    return int.from_bytes(hashlib.sha256(text.encode()).digest()[:8], "big")


def rng_for(*parts):
    return random.Random(derive_int(*parts))


def sha(data):
    if isinstance(data, str):
        data = data.encode()
    return hashlib.sha256(data).hexdigest()


def short(data, n=12):
    return sha(data)[:n]


def jdump(obj):
    return json.dumps(obj, sort_keys=True, separators=(",", ":"), default=_jdefault)


def _jdefault(o):
    import numpy as np

    if isinstance(o, (np.integer,)):
        return int(o)
    if isinstance(o, (np.floating,)):
        return float(o)
    if isinstance(o, np.ndarray):
        return o.tolist()
    if isinstance(o, (set, frozenset)):
        return sorted(o)
    if isinstance(o, bytes):
        return o.decode("latin-1")
    if isinstance(o, tuple):
        return list(o)
    return repr(o)


class Stats:
    """Mergeable counters and distinct-sets."""

    def __init__(self):
        self.c = {}
        self.s = {}

    def inc(self, key, n=1):
        self.c[key] = self.c.get(key, 0) + n

    def add(self, key, item):
        self.s.setdefault(key, set()).add(item)

    def export(self):
        return {"c": self.c, "s": {k: sorted(v) for k, v in self.s.items()}}

    def merge_export(self, exp):
        for k, v in exp["c"].items():
            self.c[k] = self.c.get(k, 0) + v
        for k, v in exp["s"].items():
            self.s.setdefault(k, set()).update(v)

    def counts(self, prefix=""):
        return {k: v for k, v in sorted(self.c.items()) if k.startswith(prefix)}

    def distinct(self, key):
        return len(self.s.get(key, ()))


def corpus_files():
    """Sorted list of the corpus file names (no directories, no .npy/.py)."""
    out = []
    for name in sorted(os.listdir(DATA)):
        path = os.path.join(DATA, name)
        if not os.path.isfile(path):
            continue
        if name.endswith((".npy", ".py")):
            continue
        out.append(name)
    return out


def corpus_bytes(name):
    with open(os.path.join(DATA, name), "rb") as fh:
        return fh.read()
