"""Installs the SimDisk seams inside a `python -m iodata` subprocess.

Active only when IODATA_VERIF_SIM names a plan file (JSON):
  {"verif": "/verif", "files": {path: base64}, "plans": {path: [fault, ...]}, "knobs": {...}, "result": "/tmp/.../result.json"}
At interpreter exit the final simulated disk (files, open handles, seam events) is written to `result`.
Without the variable this module does nothing.
"""

import os

_plan_path = os.environ.get("IODATA_VERIF_SIM")
if _plan_path:
    import atexit
    import base64
    import json
    import sys

    with open(_plan_path) as _fh:
        _plan = json.load(_fh)
    sys.path.insert(0, _plan["verif"])
    from sim import seams as _seams

    _knobs = _plan.get("knobs", {})
    _disk = _seams.SimDisk(buffer_size=_knobs.get("buffer_size", 8192), chunk_size=_knobs.get("chunk_size"))
    for _l, _t in _plan.get("symlinks", {}).items():
        _disk.symlink(_l, _t)
    for _l, _t in _plan.get("file_symlinks", {}).items():
        _disk.symlink(_l, _t)  # (before the files and fault plans: names are resolved when they are registered)
    for _p, _b in _plan["files"].items():
        _disk.put(_p, base64.b64decode(_b))
    for _p, _faults in _plan.get("plans", {}).items():
        _disk.plans[_p] = _seams.WritePlan.from_faults(_faults)
    for _d in _plan.get("missing", []):
        _disk.declare_missing(_d)

    import iodata.api
    import iodata.utils

    _inst = _seams.Installed(_disk)
    _inst.__enter__()  # open() seams of iodata.utils / iodata.api plus os.remove/rename/exists for simulated paths

    if _knobs.get("mem") is not None:
        # allocator seam: np.empty called from iodata returns a chosen fill pattern in this interpreter
        _seams.MemPoison(_knobs["mem"], prefix=os.path.join(os.path.realpath(os.path.dirname(os.path.dirname(iodata.api.__file__))), "iodata") + os.sep).__enter__()

    def _dump_result():
        out = {
            "cwd": _disk.cwd,
            "resolved": {name: _disk.resolve(name) for name in _plan.get("report", [])},
            "files": {p: base64.b64encode(bytes(b)).decode() for p, b in _disk.files.items()},
            "symlinks": dict(_disk.symlinks), "made_dirs": sorted(_disk.made_dirs),
            "open_handles": len(_disk.open_handles()),
            "events": [[e["e"], e["p"]] for e in _disk.events if e["e"] in ("open_w", "open_r")],
            "fired": {p: pl.fired for p, pl in _disk.plans.items()},
        }
        with _inst._os_real["open"](_plan["result"], "w") as fh:  # (the real file system, not the simulated one)
            json.dump(out, fh)

    atexit.register(_dump_result)
