"""Canonical forms / digests of IOData objects, module tables and call outcomes."""

import copy
import hashlib
import sys
import types

import attrs
import numpy as np


def _arr(a):
    a = np.asarray(a)
    if a.dtype == object:
        return ("ndo", a.shape, tuple(canon(x) for x in a.ravel().tolist()))
    data = np.ascontiguousarray(a)
    if data.dtype.kind == "f":
        data = data.copy()
        data[np.isnan(data)] = np.nan  # one NaN payload
    return ("nd", str(a.dtype), tuple(a.shape), hashlib.sha1(data.tobytes()).hexdigest()[:16])


def canon(o, _depth=0):
    """Nested, hashable, order-stable representation (never calls lazy getters)."""
    if _depth > 40:
        return ("deep",)
    if o is None or isinstance(o, (bool, int, str, bytes)):
        return o
    if isinstance(o, float):
        return ("f", repr(o))
    if isinstance(o, complex):
        return ("c", repr(o))
    if isinstance(o, np.ndarray):
        return _arr(o)
    if isinstance(o, np.generic):
        return ("g", str(o.dtype), repr(o.item()))
    if isinstance(o, dict):
        items = [(canon(k, _depth + 1), canon(v, _depth + 1)) for k, v in o.items()]
        items.sort(key=lambda kv: repr(kv[0]))
        return ("dict", tuple(items))
    if isinstance(o, (list, tuple)):
        return (type(o).__name__, tuple(canon(x, _depth + 1) for x in o))
    if isinstance(o, (set, frozenset)):
        return ("set", tuple(sorted((canon(x, _depth + 1) for x in o), key=repr)))
    if attrs.has(type(o)):
        fields = []
        for f in attrs.fields(type(o)):
            fields.append((f.name, canon(getattr(o, f.name), _depth + 1)))
        return ("attrs", type(o).__name__, tuple(fields))
    if isinstance(o, (types.FunctionType, types.BuiltinFunctionType, types.MethodType)):
        code = getattr(o, "__code__", None)
        h = hashlib.sha1(code.co_code).hexdigest()[:8] if code is not None else ""
        return ("fn", getattr(o, "__module__", ""), getattr(o, "__qualname__", repr(type(o))), h)
    if isinstance(o, type):
        return ("type", o.__module__, o.__qualname__)
    if isinstance(o, types.ModuleType):
        return ("module", o.__name__)
    return ("obj", type(o).__name__, repr(o)[:200])


def digest(o):
    return hashlib.sha256(repr(canon(o)).encode()).hexdigest()[:20]


def diff(a, b, path="", out=None, limit=6):
    """First few differing paths between two canonical forms."""
    if out is None:
        out = []
    if len(out) >= limit:
        return out
    if a == b:
        return out
    if (
        isinstance(a, tuple) and isinstance(b, tuple) and len(a) >= 1 and len(b) >= 1
        and a[0] == b[0] and a[0] in ("dict", "attrs", "list", "tuple")
    ):
        if a[0] == "dict":
            da, db = dict(a[1]), dict(b[1])
            for k in sorted(set(da) | set(db), key=repr):
                if k not in da:
                    out.append(f"{path}[{k!r}]: missing in first")
                elif k not in db:
                    out.append(f"{path}[{k!r}]: missing in second")
                else:
                    diff(da[k], db[k], f"{path}[{k!r}]", out, limit)
            return out
        if a[0] == "attrs":
            if a[1] != b[1]:
                out.append(f"{path}: type {a[1]} != {b[1]}")
                return out
            for (na, va), (_nb, vb) in zip(a[2], b[2]):
                diff(va, vb, f"{path}.{na}", out, limit)
            return out
        if len(a[1]) != len(b[1]):
            out.append(f"{path}: length {len(a[1])} != {len(b[1])}")
            return out
        for i, (x, y) in enumerate(zip(a[1], b[1])):
            diff(x, y, f"{path}[{i}]", out, limit)
        return out
    if isinstance(a, tuple) and isinstance(b, tuple) and len(a) == len(b) and len(a) > 0:
        for i, (x, y) in enumerate(zip(a, b)):
            if x != y:
                sub = f"{path}.{x[0]}" if (isinstance(x, tuple) and len(x) == 2 and isinstance(x[0], str)) else f"{path}<{i}>"
                if isinstance(x, tuple) and len(x) == 2 and isinstance(x[0], str) and isinstance(y, tuple) and len(y) == 2 and x[0] == y[0]:
                    diff(x[1], y[1], sub, out, limit)
                else:
                    diff(x, y, sub, out, limit)
        return out
    out.append(f"{path}: {str(a)[:80]} != {str(b)[:80]}")
    return out


def public_view(data):
    """The derived, public properties of an IOData evaluated on a deep copy (getter side effects
    therefore never touch the object under test)."""
    c = copy.deepcopy(data)
    out = {}
    for name in ("natom", "atcorenums", "charge", "nelec", "spinpol"):
        try:
            out[name] = canon(getattr(c, name))
        except Exception as exc:  # noqa: BLE001
            out[name] = ("raises", type(exc).__name__)
    return out


def iodata_canon(data):
    return ("iodata", canon(data), tuple(sorted(public_view(data).items())))


def iodata_digest(data):
    return hashlib.sha256(repr(iodata_canon(data)).encode()).hexdigest()[:20]


# --- module tables -------------------------------------------------------------------------

_FUNC_ATTRS = ("required", "optional", "fmt", "guaranteed", "ifpresent", "kwdocs", "notes")


def _iodata_modules():
    mods = []
    for name in sorted(sys.modules):
        if name == "iodata" or name.startswith("iodata."):
            if ".test" in name:
                continue
            m = sys.modules[name]
            if m is not None:
                mods.append(m)
    return mods


def module_tables():
    """Mapping 'module.attr' -> live object for every module-level data attribute of iodata."""
    out = {}
    for m in _iodata_modules():
        for attr, val in sorted(vars(m).items()):
            if attr.startswith("__") and attr.endswith("__"):
                continue
            if isinstance(val, type):
                # class-level data of classes defined here (counters, flags, shared mutable defaults)
                if getattr(val, "__module__", None) == m.__name__:
                    for cattr, cval in sorted(vars(val).items()):
                        if cattr.startswith("__") and cattr.endswith("__"):
                            continue
                        if callable(cval) or isinstance(cval, (property, staticmethod, classmethod, types.MemberDescriptorType,
                                                               types.GetSetDescriptorType, types.FunctionType)):
                            continue
                        if hasattr(cval, "__get__") and not isinstance(cval, (dict, list, set, tuple, str, int, float, bool, type(None))):
                            continue
                        out[f"{m.__name__}.{attr}.{cattr}"] = cval
                continue
            if isinstance(val, types.ModuleType):
                continue
            if attr == "open":
                continue  # the seam itself
            if isinstance(val, (types.FunctionType,)):
                if getattr(val, "__module__", None) == m.__name__ or attr in (
                    "load_one", "load_many", "dump_one", "dump_many", "write_input", "prepare_dump"
                ):
                    for fa in sorted(set(_FUNC_ATTRS) | set(getattr(val, "__dict__", {}))):
                        if fa.startswith("__"):
                            continue
                        if hasattr(val, fa) and not callable(getattr(val, fa)):
                            out[f"{m.__name__}.{attr}.{fa}"] = getattr(val, fa)
                    # Function-level mutable defaults are shared state too.
                    if val.__defaults__:
                        out[f"{m.__name__}.{attr}.__defaults__"] = val.__defaults__
                continue
            if callable(val) and not isinstance(val, (dict, list, tuple, set)):
                continue
            # Objects imported by name from another iodata module are digested where they live,
            # but aliasing is still visible: the same object is listed under both names.
            out[f"{m.__name__}.{attr}"] = val
    return out


def module_table_canon():
    memo = {}
    out = {}
    for k, v in module_tables().items():
        i = id(v)
        if i not in memo:
            memo[i] = canon(v)
        out[k] = memo[i]
    return out


def module_table_digest():
    c = module_table_canon()
    return hashlib.sha256(repr(sorted(c.items())).encode()).hexdigest()[:20]


def module_table_diff(before, after):
    out = []
    for k in sorted(set(before) | set(after)):
        if k not in before:
            out.append(f"{k}: new module-level name")
        elif k not in after:
            out.append(f"{k}: removed")
        elif before[k] != after[k]:
            out.extend(diff(before[k], after[k], k))
    return out


def _snapcopy(v, depth=0):
    """Structural copy of containers; leaves (modules, functions, scalars, strings) are shared."""
    if depth > 20:
        return v
    if isinstance(v, dict):
        return {k: _snapcopy(x, depth + 1) for k, x in v.items()}
    if isinstance(v, list):
        return [_snapcopy(x, depth + 1) for x in v]
    if isinstance(v, tuple):
        return tuple(_snapcopy(x, depth + 1) for x in v)
    if isinstance(v, set):
        return set(v)
    if isinstance(v, np.ndarray):
        return v.copy()
    return v


def _has_array(v, depth=0):
    if isinstance(v, np.ndarray):
        return True
    if depth < 4:
        if isinstance(v, (list, tuple, set)):
            return any(_has_array(x, depth + 1) for x in v)
        if isinstance(v, dict):
            return any(_has_array(x, depth + 1) for x in v.values())
    return False


def _fasthash(v, depth=0):
    if isinstance(v, np.ndarray):
        return hash((v.shape, str(v.dtype), v.tobytes()))
    if depth < 4:
        if isinstance(v, (list, tuple)):
            return hash(tuple(_fasthash(x, depth + 1) for x in v))
        if isinstance(v, dict):
            return hash(tuple((repr(k), _fasthash(x, depth + 1)) for k, x in v.items()))
    return hash(repr(v))


def clear_function_caches():
    """functools.lru_cache / cache wrappers found in iodata modules are scratch state as well."""
    n = 0
    for m in _iodata_modules():
        for val in list(vars(m).values()):
            cc = getattr(val, "cache_clear", None)
            if callable(cc) and hasattr(val, "cache_info"):
                try:
                    if val.cache_info().currsize:
                        n += 1
                    cc()
                except Exception:  # noqa: BLE001
                    pass
    return n


class TableGuard:
    """Snapshot and in-place restore of all mutable module tables (so runs cannot leak)."""

    def __init__(self):
        self.snap = {}
        for k, v in module_tables().items():
            if isinstance(v, (dict, list, set)):
                self.snap[k] = (v, _snapcopy(v))
        self.modnames = {m.__name__: set(vars(m)) for m in _iodata_modules()}
        self.canon0 = module_table_canon()
        self.fast0 = None
        self.arr_ids = {id(v) for v in module_tables().values() if _has_array(v)}
        self.scratch_keys = {k for k, v in module_tables().items()
                             if v is None or (isinstance(v, (dict, list, set)) and len(v) == 0)}
        self.layout = self._layout()
        self.bound = dict(module_tables())
        self.fast0 = self._fast()

    def _layout(self):
        """(module, nvars, [(key, getter)]) for every module: lets _fast() fetch the known tables with
        plain dict lookups instead of re-classifying ~3000 module attributes on every call."""
        lay = []
        keys = module_tables()
        for m in _iodata_modules():
            prefix = m.__name__ + "."
            entries = []
            for k in keys:
                if not k.startswith(prefix):
                    continue
                rest = k[len(prefix):].split(".")
                if rest[0] in vars(m):
                    entries.append((k, rest))
            lay.append((m, len(vars(m)), entries))
        # classes and functions of iodata whose own attribute dictionaries may grow (class-level counters, flags set on functions)
        self.sub = []
        for m in _iodata_modules():
            for val in vars(m).values():
                if isinstance(val, (type, types.FunctionType)) and getattr(val, "__module__", None) == m.__name__:
                    try:
                        self.sub.append((val, set(vars(val))))
                    except TypeError:
                        pass
        return lay

    def _fast(self):
        """Cheap fingerprint: repr()/bytes of every distinct live table; only when it moves is the full
        canonical diff computed."""
        memo = {}
        parts = []
        lay = getattr(self, "layout", None)
        items = None
        if lay is not None and any(len(vars(obj)) != len(names) for obj, names in getattr(self, "sub", [])):
            lay = None  # an attribute appeared on a class or function: complete path
        if lay is not None:
            items = []
            for m, nvars, entries in lay:
                d = vars(m)
                if len(d) != nvars:
                    items = None  # names appeared or disappeared: take the slow, complete path
                    break
                for k, rest in entries:
                    try:
                        v = d[rest[0]]
                        for a in rest[1:]:
                            v = getattr(v, a)
                    except (KeyError, AttributeError):
                        items = None
                        break
                    items.append((k, v))
                if items is None:
                    break
        if items is None:
            items = list(module_tables().items())
        for k, v in items:
            i = id(v)
            if i not in memo:
                memo[i] = _fasthash(v) if i in self.arr_ids else hash(repr(v))
            parts.append((k, i, memo[i]))
        return hash(tuple(parts))

    def changed(self, tables_only=False):
        """List of differences against the pristine snapshot (empty when untouched).

        tables_only=True leaves out *scratch state*: module-level names that did not exist at import
        and containers that were empty at import (memo caches, scratch buffers).  Such state is not one
        of the tables the property names; whether it is harmful is judged by comparing outcomes, and
        restore() resets it so that every run starts cold."""
        if self.fast0 is not None and self._fast() == self.fast0:
            return []
        now = module_table_canon()
        if now == self.canon0:
            return []
        if not tables_only:
            return module_table_diff(self.canon0, now)
        before = {k: v for k, v in self.canon0.items() if k not in self.scratch_keys}
        after = {k: v for k, v in now.items() if k in before}
        return module_table_diff(before, after)

    def scratch_changed(self):
        """True when only scratch state (see changed) differs from the snapshot."""
        return bool(self.changed()) and not self.changed(tables_only=True)

    def restore(self):
        clear_function_caches()
        for _k, (live, saved) in self.snap.items():
            if isinstance(live, dict):
                live.clear()
                live.update(_snapcopy(saved))
            elif isinstance(live, list):
                live[:] = _snapcopy(saved)
            elif isinstance(live, set):
                live.clear()
                live.update(_snapcopy(saved))
        # re-bind module-level names that were rebound to another object
        for m, _n, entries in getattr(self, "layout", []):
            for k, rest in entries:
                if len(rest) == 1 and k in self.bound and vars(m).get(rest[0]) is not self.bound[k]:
                    setattr(m, rest[0], self.bound[k])
        # remove attributes that appeared on classes / functions since the snapshot
        for obj, names in getattr(self, "sub", []):
            for a in list(vars(obj)):
                if a not in names:
                    try:
                        delattr(obj, a)
                    except (AttributeError, TypeError):
                        pass
        # remove module-level names that appeared since the snapshot
        for m in _iodata_modules():
            known = self.modnames.get(m.__name__)
            if known is None:
                continue
            for attr in list(vars(m)):
                if attr not in known and attr != "open":
                    delattr(m, attr)


# --- outcomes --------------------------------------------------------------------------------


def exc_record(exc):
    if exc is None:
        return None
    cause = exc.__cause__
    return {
        "type": type(exc).__name__,
        "msg": str(exc)[:300],
        "cause": None if cause is None else type(cause).__name__,
        "cause_msg": None if cause is None else str(cause)[:200],
    }
