"""Sensitivity self-test: small, realistic changes to /repo that break one property each.

Each mutant is a textual replacement (must match exactly once) so that it keeps applying when
unrelated lines move.  `check` is the quick check expected to exit 1 with a VIOLATION line.
"""

MUTANTS = [
    # ---------------------------------------------------------------- C07
    dict(id="m01_narrow_except_load_one", prop="C07", file="iodata/api.py",
         old='''        except StopIteration as exc:
            raise LoadError("File ended before all data was read.", lit) from exc
        except Exception as exc:
            raise LoadError("Uncaught exception while loading file.", lit) from exc''',
         new='''        except StopIteration as exc:
            raise LoadError("File ended before all data was read.", lit) from exc
        except (ValueError, IndexError) as exc:
            raise LoadError("Uncaught exception while loading file.", lit) from exc''',
         why="only two exception types are funnelled; KeyError/TypeError/... from parsers escape"),
    dict(id="m03_lineiterator_exit_no_close", prop="C07", file="iodata/utils.py",
         old='''    def __exit__(self, exc_type, exc_value, traceback):
        self.fh.close()''',
         new='''    def __exit__(self, exc_type, exc_value, traceback):
        if exc_type is None:
            self.fh.close()''',
         why="the file stays open when loading fails"),
    dict(id="m04_back_no_decrement", prop="C07", file="iodata/utils.py",
         old='''        self.stack.append(line)
        self.lineno -= 1''',
         new='''        self.stack.append(line)''',
         why="line numbers drift after every push-back"),
    dict(id="m05_mol2_loop_swallows_eof", prop="C07", file="iodata/formats/mol2.py",
         old='''        try:
            line = next(lit)
        except StopIteration:
            break
        if len(line) > 1:''',
         new='''        try:
            line = next(lit)
        except StopIteration:
            if molecule_found:
                break
            continue
        if len(line) > 1:''',
         why="a MOL2 file without a complete molecule makes the reader spin at EOF"),
    dict(id="m06_error_without_filename", prop="C07", file="iodata/formats/sdf.py",
         old='''        raise LoadError("Only V2000 SDF files are supported.", lit)''',
         new='''        raise LoadError("Only V2000 SDF files are supported.")''',
         why="LoadError that does not name the file"),
    dict(id="m06b_load_many_generator_leak", prop="C07", file="iodata/api.py",
         old='''    format_module = _select_format_module(filename, "load_many", fmt)
    with LineIterator(filename) as lit:
        try:
            for data in format_module.load_many(lit, **kwargs):
                yield IOData(**data)''',
         new='''    format_module = _select_format_module(filename, "load_many", fmt)
    lit = LineIterator(filename).__enter__()
    if True:
        try:
            for data in format_module.load_many(lit, **kwargs):
                yield IOData(**data)
            lit.__exit__(None, None, None)''',
         why="the file is only closed when the generator is exhausted, not when it fails, is closed early or dropped"),
    # ---------------------------------------------------------------- C08
    dict(id="m07_required_check_skipped_with_prepare_dump", prop="C08", file="iodata/api.py",
         old='''    format_module = _select_format_module(filename, "dump_one", fmt)
    try:
        _check_required(filename, data, format_module.dump_one)
        if hasattr(format_module, "prepare_dump"):
            data = format_module.prepare_dump(data, allow_changes, filename)''',
         new='''    format_module = _select_format_module(filename, "dump_one", fmt)
    try:
        if hasattr(format_module, "prepare_dump"):
            data = format_module.prepare_dump(data, allow_changes, filename)
        else:
            _check_required(filename, data, format_module.dump_one)''',
         why="formats with a prepare_dump no longer get their declared required attributes checked pre-flight; the writer fails after truncating the target"),
    dict(id="m08_dump_many_first_frame_checked_against_dump_one", prop="C08", file="iodata/api.py",
         old='''    try:
        _check_required(filename, first, format_module.dump_many)
        if hasattr(format_module, "prepare_dump"):
            first = format_module.prepare_dump(first, allow_changes, filename)''',
         new='''    try:
        _check_required(filename, first, getattr(format_module, "dump_one", format_module.dump_many))
        if hasattr(format_module, "prepare_dump"):
            first = format_module.prepare_dump(first, allow_changes, filename)''',
         why="the first frame is checked against dump_one's required list, which is shorter for MOL2"),
    dict(id="m09_dump_many_listifies", prop="C13", file="iodata/api.py",
         old='''    iter_data = iter(iter_data)

    # Check the first item before creating the file.''',
         new='''    iter_data = iter(list(iter_data))

    # Check the first item before creating the file.''',
         why="the iterable is no longer consumed lazily"),
    dict(id="m10_dump_one_narrow_funnel", prop="C08", file="iodata/api.py",
         old='''    except DumpError:
        raise
    except Exception as exc:
        raise DumpError("Uncaught exception while dumping to a file", filename) from exc
    return data''',
         new='''    except DumpError:
        raise
    except (ValueError, TypeError, KeyError, IndexError) as exc:
        raise DumpError("Uncaught exception while dumping to a file", filename) from exc
    return data''',
         why="OSError from the disk escapes dump_one"),
    dict(id="m11_empty_sequence_creates_file", prop="C08", file="iodata/api.py",
         old='''    try:
        first = next(iter_data)
    except StopIteration as exc:
        raise DumpError("dump_many needs at least one IOData object.", filename) from exc''',
         new='''    try:
        first = next(iter_data)
    except StopIteration as exc:
        open(filename, "w").close()
        raise DumpError("dump_many needs at least one IOData object.", filename) from exc''',
         why="an empty frame sequence creates/truncates the file"),
    dict(id="m12_write_input_swallows_render_error", prop="C08", file="iodata/inputs/common.py",
         old='''    print(template.format(**fields), file=fh)''',
         new='''    try:
        print(template.format(**fields), file=fh)
    except KeyError:
        print(template, file=fh)''',
         why="a template with an unknown field is written out verbatim instead of raising WriteInputError"),
    # ---------------------------------------------------------------- C09
    dict(id="m13_xyz_fills_in_title", prop="C09", file="iodata/formats/xyz.py",
         old='''    print(" ".join((data.title or "Created with IOData").splitlines()), file=f)''',
         new='''    if data.title is None:
        data.title = "Created with IOData"
    print(" ".join(data.title.splitlines()), file=f)''',
         why="the XYZ writer fills in the caller's title"),
    dict(id="m13b_sdf_temporarily_converts_coords", prop="C09", file="iodata/formats/sdf.py",
         old='''    for iatom in range(data.natom):
        n = num2sym[data.atnums[iatom]]
        x, y, z = data.atcoords[iatom] / angstrom
        print(f"{x:10.4f}{y:10.4f}{z:10.4f} {n:<3s} 0  0  0  0  0  0  0  0  0  0  0  0", file=f)''',
         new='''    saved = data.atcoords.copy()
    data.atcoords[:] = saved / angstrom
    for iatom in range(data.natom):
        n = num2sym[data.atnums[iatom]]
        x, y, z = data.atcoords[iatom]
        print(f"{x:10.4f}{y:10.4f}{z:10.4f} {n:<3s} 0  0  0  0  0  0  0  0  0  0  0  0", file=f)
    data.atcoords[:] = saved''',
         why="the SDF writer converts the caller's coordinates in place and restores them afterwards (only visible mid-dump)"),
    dict(id="m14_silent_segmentation", prop="C09", file="iodata/prepare.py",
         old='''    warn(
        PrepareDumpWarning(
            message + "The orbital basis is converted to segmented shells", filename
        ),
        stacklevel=2,
    )''',
         new='''    pass''',
         why="conversion to segmented shells is no longer announced"),
    # ---------------------------------------------------------------- C16
    dict(id="m15_xyz_module_level_scratch", prop="C16", file="iodata/formats/xyz.py",
         old='''    # Load the atom lines.
    for iatom in range(natom):
        words = next(lit).split()
        for attrname, keyname, _shapesuffix, _dtype, loadword, _dumpword in atom_columns:''',
         new='''    # Load the atom lines.
    global _WORDS
    for iatom in range(natom):
        _WORDS = next(lit).split()
        words = _WORDS
        for attrname, keyname, _shapesuffix, _dtype, loadword, _dumpword in atom_columns:
            words = _WORDS''',
         why="module-level scratch variable shared by concurrent XYZ loads"),
    dict(id="m16_writer_sorts_conventions", prop="C16", file="iodata/formats/wfn.py",
         old='''def dump_one(f: TextIO, data: IOData) -> None:
    """Do not edit this docstring. It will be overwritten."""''',
         new='''def dump_one(f: TextIO, data: IOData) -> None:
    """Do not edit this docstring. It will be overwritten."""
    for _key in CONVENTIONS:
        CONVENTIONS[_key].sort()''',
         why="a writer sorts the module-level convention lists in place"),
    dict(id="m17_memoised_on_basename", prop="C16", file="iodata/api.py",
         old='''    format_module = _select_format_module(filename, "load_one", fmt)
    with LineIterator(filename) as lit:
        try:
            return IOData(**format_module.load_one(lit, **kwargs))''',
         new='''    format_module = _select_format_module(filename, "load_one", fmt)
    key = (os.path.basename(filename), fmt)
    if key in _LOAD_CACHE and not kwargs:
        return _LOAD_CACHE[key]
    with LineIterator(filename) as lit:
        try:
            _LOAD_CACHE[key] = IOData(**format_module.load_one(lit, **kwargs))
            return _LOAD_CACHE[key]''',
         extra=[("iodata/api.py", '''FORMAT_MODULES = _find_format_modules()''', '''FORMAT_MODULES = _find_format_modules()
_LOAD_CACHE = {}''')],
         why="results memoised on an incomplete key (basename instead of path+content)"),
    dict(id="m17b_periodic_learns_symbols", prop="C16", file="iodata/formats/mol2.py",
         old='''        if atnum is None:
            atnum = 0
            warn(LoadWarning(f"Cannot interpret element symbol {words[1][:2]}", lit), stacklevel=2)''',
         new='''        if atnum is None:
            atnum = 0
            sym2num[symbol] = 0
            warn(LoadWarning(f"Cannot interpret element symbol {words[1][:2]}", lit), stacklevel=2)''',
         why="an unknown element symbol is remembered in the global periodic table"),
    # ---------------------------------------------------------------- C13
    dict(id="m18_pdb_load_many_swallows_everything", prop="C13", file="iodata/formats/pdb.py",
         old='''    try:
        while True:
            yield load_one(lit)
    except (StopIteration, LoadError):
        return''',
         new='''    try:
        while True:
            yield load_one(lit)
    except Exception:
        return''',
         why="a malformed PDB frame ends the sequence silently"),
    dict(id="m19_xyz_skips_bad_frame", prop="C13", file="iodata/formats/xyz.py",
         old='''            lit.back(line)
            yield load_one(lit, atom_columns)''',
         new='''            lit.back(line)
            try:
                frame = load_one(lit, atom_columns)
            except ValueError:
                continue
            yield frame''',
         why="a malformed XYZ frame is skipped"),
    # ---------------------------------------------------------------- C18
    dict(id="m20_main_exits_zero", prop="C18", file="iodata/__main__.py",
         old='''    args = parse_args()
    convert(args.input, args.output, args.many, args.infmt, args.outfmt, args.allow_changes)''',
         new='''    args = parse_args()
    try:
        convert(args.input, args.output, args.many, args.infmt, args.outfmt, args.allow_changes)
    except Exception as exc:
        print(f"conversion problem: {exc}")''',
         why="the CLI reports success although the conversion failed"),
    dict(id="m21_convert_ignores_outfmt_with_many", prop="C18", file="iodata/__main__.py",
         old='''        dump_many(load_many(infn, fmt=infmt), outfn, allow_changes=allow_changes, fmt=outfmt)''',
         new='''        dump_many(load_many(infn, fmt=infmt), outfn, allow_changes=allow_changes)''',
         why="-o is ignored together with -m"),
    dict(id="m21b_convert_ignores_allow_changes", prop="C18", file="iodata/__main__.py",
         old='''        dump_one(load_one(infn, fmt=infmt), outfn, allow_changes=allow_changes, fmt=outfmt)''',
         new='''        dump_one(load_one(infn, fmt=infmt), outfn, fmt=outfmt)''',
         why="-c is ignored for single-frame conversions"),
    # ---------------------------------------------------------------- C11
    dict(id="m22_charge_setter_keeps_stored_charge", prop="C11", file="iodata/iodata.py",
         old='''        else:
            self.nelec = self.atcorenums.sum() - charge''',
         new='''        else:
            self.nelec = self.atcorenums.sum() - charge
            self._charge = charge''',
         why="a stale stored charge survives next to the electron count"),
    dict(id="m23_nelec_setter_accepts_with_mo", prop="C11", file="iodata/iodata.py",
         old='''        if self.mo is None:
            self._nelec = nelec
        else:
            raise TypeError("nelec cannot be set when orbitals are present.")''',
         new='''        if self.mo is None or nelec is None:
            self._nelec = nelec
        else:
            raise TypeError("nelec cannot be set when orbitals are present.")''',
         why="nelec = None is accepted although orbitals are present"),
    # ---------------------------------------------------------------- C12
    dict(id="m24_occsb_setter_forgets_aminusb", prop="C12", file="iodata/orbitals.py",
         old='''                occsa = np.array(self.occsa)
                self.occs = occsa + occsb
                self.occs_aminusb = occsa - occsb''',
         new='''                occsa = np.array(self.occsa)
                self.occs = occsa + occsb''',
         why="assigning beta occupations does not update occs_aminusb"),
    dict(id="m25_unrestricted_spinpol_signed", prop="C12", file="iodata/orbitals.py",
         old='''        return abs(self.occsa.sum() - self.occsb.sum())''',
         new='''        return self.occsa.sum() - self.occsb.sum()''',
         why="spin polarisation of unrestricted orbitals loses its absolute value"),
    dict(id="m26_shell_nbasis_pure_formula", prop="C12", file="iodata/basis.py",
         old='''            elif kind == "p" and angmom >= 2:
                result += 2 * angmom + 1''',
         new='''            elif kind == "p" and angmom >= 1:
                result += 2 * angmom + 1''',
         why="pure p functions are counted instead of rejected"),
    # ---------------------------------------------------------------- later additions
    dict(id="m27_reissue_iterates_live_list", prop="C16", file="iodata/api.py",
         old='''            for warning in tuple(warning_list):''',
         new='''            for warning in warning_list:''',
         why="(F16 re-introduced) re-issued warnings can land in the list being iterated when threads interleave: endless loop"),
    dict(id="m28_sdf_bonds_uninitialised", prop="C16", file="iodata/formats/sdf.py",
         old='''    for ibond in range(nbond):''',
         new='''    for ibond in range(nbond - 1):''',
         why="the last row of the pre-allocated (np.empty) bond array is never filled: the result is whatever the memory held"),
    # ---------------------------------------------------------------- environment seams (rounds 5 and 6)
    dict(id="m29_mol2_writes_the_date", prop="C16", file="iodata/formats/mol2.py",
         old='''    print("# Mol2 file created with Iodata", file=f)''',
         new='''    import datetime

    print(f"# Mol2 file created with Iodata on {datetime.date.today()}", file=f)''',
         why="the written bytes depend on the wall clock (clock seam)"),
    dict(id="m30_cube_written_in_memory_order", prop="C16", file="iodata/formats/cube.py",
         old='''    for value in cube_data.flat:''',
         new='''    for value in np.nditer(cube_data):''',
         why="the same values in another memory layout give other bytes (metamorphic layout relation)"),
    dict(id="m30b_cube_written_in_memory_order_c09", prop="C09", file="iodata/formats/cube.py",
         old='''    for value in cube_data.flat:''',
         new='''    for value in np.nditer(cube_data):''',
         why="a Fortran-ordered grid is written in the wrong order: the file read back differs from the object"),
    dict(id="m31_makedirs_before_validation", prop="C08", file="iodata/api.py",
         old='''    format_module = _select_format_module(filename, "dump_one", fmt)
    try:
        _check_required(filename, data, format_module.dump_one)''',
         new='''    if os.path.dirname(filename):
        os.makedirs(os.path.dirname(filename), exist_ok=True)
    format_module = _select_format_module(filename, "dump_one", fmt)
    try:
        _check_required(filename, data, format_module.dump_one)''',
         why="directories are created before the call is validated (virtual file system: missing directory)"),
    dict(id="m32_main_restores_sigpipe", prop="C18", file="iodata/__main__.py",
         old='''    np.seterr(divide="raise", over="raise", invalid="raise")
''',
         new='''    np.seterr(divide="raise", over="raise", invalid="raise")
    import signal

    signal.signal(signal.SIGPIPE, signal.SIG_DFL)
''',
         why="a reader that leaves kills the converter silently (signal seam)"),
    dict(id="m33_segments_freeze_exponents", prop="C09", file="iodata/convert.py",
         old='''                shells.append(
                    Shell(shell.icenter, [angmom], [kind], shell.exponents, coeffs.reshape(-1, 1))
                )''',
         new='''                shells.append(
                    Shell(shell.icenter, [angmom], [kind], shell.exponents, coeffs.reshape(-1, 1))
                )
                shells[-1].exponents.flags.writeable = False''',
         why="the caller's exponent arrays become read-only (array flags in the snapshot)"),
    dict(id="m34_lineiterator_short_read_is_eof", prop="C07", file="iodata/utils.py",
         old='''        self.lineno += 1
        return self.stack.pop() if self.stack else next(self.fh)''',
         new='''        self.lineno += 1
        if self.stack:
            return self.stack.pop()
        # own line buffering on top of the binary layer ("faster than the text layer")
        st = self.__dict__.setdefault("_lb", {"buf": b"", "eof": False})
        while b"\\n" not in st["buf"] and not st["eof"]:
            more = self.fh.buffer.read1(4096)
            st["buf"] += more
            if len(more) < 4096:
                st["eof"] = True  # fewer bytes than asked for: taken for the end of the file
        if not st["buf"]:
            raise StopIteration
        line, sep, st["buf"] = st["buf"].partition(b"\\n")
        return (line + sep).decode("utf-8", "replace")''',
         why="a short read is taken for end of file (read-portion differential: pipes, network file systems)"),
]
