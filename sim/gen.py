"""Concrete, JSON-able object recipes and seeded generators for them.

A *recipe* fully determines an IOData object without any PRNG:
  {"kind": "corpus", "file": "water.xyz", "fmt": None, "frame": None|i, "mods": [...]}
  {"kind": "mol", "fields": {...plain lists...}, "mods": [...]}
  {"kind": "wfn", "atoms": ..., "shells": ..., "mo": ..., "fields": {...}, "mods": [...]}
Mods are applied after construction:
  {"op": "set", "attr": "title", "value": None}
  {"op": "mo_generalized"} {"op": "mo_aminusb"} {"op": "gen_contraction"} {"op": "pure_d"}
  {"op": "nonaufbau"} {"op": "drop_extra", "key": "schema_name"} {"op": "ghost", "iatom": 0}
  {"op": "extra_nested"} ...
"""

import copy
import os

import numpy as np

from . import common

_CACHE = {}


def _load_corpus(file, fmt=None, frame=None):
    key = (file, fmt, frame)
    if key not in _CACHE:
        import warnings

        from iodata import load_many, load_one

        path = os.path.join(common.DATA, file)
        if fmt is None and file.endswith(".json"):
            fmt = "json_qcschema"
        with warnings.catch_warnings():
            warnings.simplefilter("ignore")
            if frame is None:
                _CACHE[key] = load_one(path, fmt=fmt)
            else:
                for i, d in enumerate(load_many(path, fmt=fmt)):
                    _CACHE[(file, fmt, i)] = d
    return copy.deepcopy(_CACHE[key])


def all_frames(file, fmt=None):
    """All frames of a corpus trajectory (deep copies)."""
    _load_corpus(file, fmt, 0)
    out = []
    i = 0
    while (file, fmt, i) in _CACHE:
        out.append(copy.deepcopy(_CACHE[(file, fmt, i)]))
        i += 1
    return out


def _arr(v, dtype=None):
    return None if v is None else np.array(v, dtype=dtype)


def build(recipe):
    from iodata import IOData
    from iodata.basis import MolecularBasis, Shell
    from iodata.orbitals import MolecularOrbitals

    kind = recipe["kind"]
    if kind == "corpus":
        data = _load_corpus(recipe["file"], recipe.get("fmt"), recipe.get("frame"))
    elif kind == "mol":
        data = IOData(**_fields(recipe["fields"]))
    elif kind == "wfn":
        from iodata.convert import HORTON2_CONVENTIONS

        shells = [
            Shell(s["icenter"], s["angmoms"], s["kinds"], s["exponents"], np.array(s["coeffs"], float))
            for s in recipe["shells"]
        ]
        obasis = MolecularBasis(shells, copy.deepcopy(HORTON2_CONVENTIONS), "L2")
        m = recipe["mo"]
        mo = MolecularOrbitals(
            m["kind"], m.get("norba"), m.get("norbb"), _arr(m.get("occs"), float),
            _arr(m.get("coeffs"), float), _arr(m.get("energies"), float), None,
            _arr(m.get("occs_aminusb"), float),
        )
        data = IOData(obasis=obasis, mo=mo, **_fields(recipe.get("fields", {})))
    else:
        raise ValueError(kind)
    for mod in recipe.get("mods", []):
        data = apply_mod(data, mod)
    return data


def _fields(fields):
    out = {}
    for k, v in fields.items():
        if k in ("atcharges", "atffparams", "extra", "one_ints", "two_ints", "one_rdms", "moments"):
            out[k] = {kk: _unjson(vv) for kk, vv in v.items()}
        else:
            out[k] = v
    return out


def _unjson(v):
    if isinstance(v, dict) and v.get("__nd__"):
        return np.array(v["data"], dtype=v.get("dtype"))
    if isinstance(v, dict) and v.get("__tuple__"):
        return tuple(v["data"])
    return v


def nd(data, dtype=None):
    return {"__nd__": True, "data": data, "dtype": dtype}


def apply_mod(data, mod):
    import attrs

    from iodata.basis import MolecularBasis, Shell
    from iodata.orbitals import MolecularOrbitals

    op = mod["op"]
    if op == "set":
        setattr(data, mod["attr"], copy.deepcopy(mod["value"]))
    elif op == "set_none":
        # through the public setter; where the setter refuses (derived from orbitals) it is a no-op
        try:
            setattr(data, mod["attr"], None)
        except TypeError:
            pass
    elif op == "mo_generalized":
        mo = data.mo
        norb = mo.norb
        nb = mo.nbasis
        coeffs = np.zeros((2 * nb, norb))
        coeffs[:nb] = mo.coeffs[:, :norb]
        data.mo = MolecularOrbitals("generalized", None, None, np.array(mo.occs[:norb]), coeffs,
                                    None if mo.energies is None else np.array(mo.energies[:norb]))
    elif op == "mo_aminusb":
        mo = data.mo
        if mo.kind != "restricted":
            norb = mo.norba
            mo = MolecularOrbitals("restricted", norb, norb, np.array(mo.occsa + mo.occsb[:norb]) if mo.norbb == norb else np.array(mo.occsa) * 2,
                                   np.array(mo.coeffsa), None if mo.energies is None else np.array(mo.energiesa))
        occs = np.array(mo.occs)
        am = np.where((occs > 0) & (occs <= 1.0), occs, 0.0)
        if not am.any():
            # make the HOMO singly occupied so that aminusb is non-trivial
            idx = int(np.nonzero(occs)[0][-1])
            occs[idx] = 1.0
            am = np.zeros_like(occs)
            am[idx] = 1.0
        data.mo = MolecularOrbitals("restricted", mo.norba, mo.norbb, occs, np.array(mo.coeffs),
                                    None if mo.energies is None else np.array(mo.energies), None, am)
    elif op == "mo_aminusb_zero":
        # spin-paired open shell: two singly occupied orbitals (integer occupations) with occs_aminusb == 0
        mo = data.mo
        if mo.kind != "restricted":
            norb = mo.norba
            mo = MolecularOrbitals("restricted", norb, norb, np.array(mo.occsa) + np.array(mo.occsb[:norb]) if mo.norbb == norb else np.array(mo.occsa) * 2,
                                   np.array(mo.coeffsa), None if mo.energies is None else np.array(mo.energiesa))
        occs = np.round(np.array(mo.occs))
        two = np.nonzero(occs == 2)[0]
        zero = np.nonzero(occs == 0)[0]
        if len(two) and len(zero):
            occs[two[-1]] = 1.0
            occs[zero[0]] = 1.0
        data.mo = MolecularOrbitals("restricted", mo.norba, mo.norbb, occs, np.array(mo.coeffs),
                                    None if mo.energies is None else np.array(mo.energies), None, np.zeros_like(occs))
    elif op == "tiny_cube_values":
        if data.cube is not None:
            d = np.array(data.cube.data, dtype=float)
            d.flat[:: max(1, d.size // 7)] = 3.5e-120
            d.flat[1] = -2.0e-310
            data.cube = attrs.evolve(data.cube, data=d)
    elif op == "cube_layout":
        # the same grid values in another memory layout (as a Fortran routine or a transposed evaluation returns them)
        if data.cube is not None:
            d = np.array(data.cube.data, dtype=float)
            if mod["how"] == "fortran":
                d2 = np.asfortranarray(d)
            else:
                d2 = np.ascontiguousarray(d.transpose(2, 1, 0)).transpose(2, 1, 0)  # a view with reversed strides
            data.cube = attrs.evolve(data.cube, data=d2)
    elif op == "mo_aminusb_neg":
        # beta-majority open shell
        data = apply_mod(data, {"op": "mo_aminusb"})
        data.mo.occs_aminusb = -np.array(data.mo.occs_aminusb)
    elif op == "bonds_unsorted":
        # a bond table in no particular order: higher atom index first in every other row, rows reversed
        nat = data.natom or 0
        if data.bonds is not None and len(data.bonds):
            b = np.array(data.bonds)
            b[::2, [0, 1]] = b[::2, [1, 0]]
            data.bonds = b[::-1].copy()
        elif nat >= 2:
            data.bonds = np.array([[nat - 1, 0, 1]] + ([[1, 0, 2]] if nat >= 3 else []))
    elif op == "unsorted_centres":
        # shells not grouped by centre (orbital coefficient rows permuted along: same wavefunction)
        shells = list(data.obasis.shells)
        if len(shells) >= 3 and len({sh.icenter for sh in shells}) >= 2 and data.mo is not None and data.mo.kind != "generalized":
            starts = np.cumsum([0] + [sh.nbasis for sh in shells])
            order = list(range(len(shells)))
            order.append(order.pop(0))  # first shell goes last
            rows = np.concatenate([np.arange(starts[i], starts[i + 1]) for i in order])
            obasis = MolecularBasis([shells[i] for i in order], data.obasis.conventions, data.obasis.primitive_normalization)
            mo = data.mo
            mo = MolecularOrbitals(mo.kind, mo.norba, mo.norbb, mo.occs, np.ascontiguousarray(mo.coeffs[rows]), mo.energies, mo.irreps, mo.occs_aminusb)
            data = attrs.evolve(data, obasis=obasis, mo=mo, one_rdms={})
    elif op == "known_extras":
        # optional data the writers look for in `extra`
        norb = data.mo.norb if data.mo is not None and data.mo.kind != "generalized" else 0
        data.extra.update({
            "mo_spin": np.array([3] * norb) if (data.mo is not None and data.mo.kind == "restricted") else np.array([1, 2] * norb)[:norb],
            "virial_ratio": 2.0012, "keywords": "GTO", "num_perturbations": 0, "nuc_viral": 0.25,
            "full_virial_ratio": 2.0001, "num_core_electrons": 2, "compound": "a compound\nsecond line",
            "polarizability_tensor": np.array([[1.0, 0.1, 0.0], [0.1, 2.0, 0.0], [0.0, 0.0, 3.0]]),
        })
    elif op == "conv_signs":
        # the caller's basis uses its own sign conventions (as ORCA does for f/g functions); C-contiguous coefficients
        conv = {}
        for key, names in data.obasis.conventions.items():
            names = list(names)
            if key[0] >= 1 and len(names) >= 2:
                for i in (0, len(names) - 1):
                    names[i] = names[i][1:] if names[i].startswith("-") else "-" + names[i]
            conv[key] = names
        data.obasis = MolecularBasis(data.obasis.shells, conv, data.obasis.primitive_normalization)
        if data.mo is not None and data.mo.coeffs is not None:
            data.mo.coeffs = np.ascontiguousarray(data.mo.coeffs)
    elif op == "asym_noise":
        # matrices that are symmetric only up to numerical noise (finite differences, matrix products)
        def noisy(mat):
            mat = np.array(mat, dtype=float)
            if mat.ndim == 2 and mat.shape[0] == mat.shape[1] and mat.shape[0] > 1:
                mat = mat + 1e-6 * np.triu(np.ones_like(mat), 1)
            return mat
        for k in list(data.one_rdms):
            data.one_rdms[k] = noisy(data.one_rdms[k])
        if data.athessian is not None:
            data.athessian = noisy(data.athessian)
        n = data.natom or 0
        if data.athessian is None and n:
            data.athessian = noisy(np.eye(3 * n))
        for k in list(data.extra):
            if isinstance(data.extra[k], np.ndarray) and data.extra[k].ndim == 2:
                data.extra[k] = noisy(data.extra[k])
    elif op == "gen_contraction":
        # merge the first two shells on the same centre with equal exponents count into one
        # generalized contraction; fall back to duplicating a contraction of shell 0.
        shells = list(data.obasis.shells)
        s0 = shells[0]
        new0 = Shell(s0.icenter, np.concatenate([s0.angmoms, s0.angmoms[:1]]),
                     np.concatenate([s0.kinds, s0.kinds[:1]]), np.array(s0.exponents),
                     np.concatenate([s0.coeffs, s0.coeffs[:, :1] * mod.get("scale", 0.5)], axis=1))  # scale 0: a padding column of a general-contraction table
        shells[0] = new0
        obasis = MolecularBasis(shells, data.obasis.conventions, data.obasis.primitive_normalization)
        extra_nb = new0.nbasis - s0.nbasis
        mo = data.mo
        if mo is not None and mo.coeffs is not None:
            first = s0.nbasis
            block = np.zeros((extra_nb, mo.coeffs.shape[1]))
            coeffs = np.concatenate([mo.coeffs[:first], block, mo.coeffs[first:]], axis=0)
            mo = MolecularOrbitals(mo.kind, mo.norba, mo.norbb, mo.occs, coeffs, mo.energies,
                                   mo.irreps, mo.occs_aminusb)
        data = attrs.evolve(data, obasis=obasis, mo=mo, one_rdms={})
    elif op == "gen_shell":
        # append one generalized (or SP-like) Cartesian shell on atom 0 with zero MO coefficients:
        # the orbitals stay orthonormal, the basis gains a shell with the given angmoms pattern
        angs = list(mod["angmoms"])
        ncol = len(angs)
        exps = [1.3, 0.4]
        coeffs = [[0.6 + 0.1 * j for j in range(ncol)], [0.5 - 0.05 * j for j in range(ncol)]]
        shells = list(data.obasis.shells)
        # on the last centre, so that the shells stay sorted by centre (how a writer treats an
        # unsorted shell list is C01's subject)
        kinds_ = list(mod.get("kinds") or ["c"] * ncol)
        new = Shell(max(sh.icenter for sh in shells), angs, kinds_, exps, coeffs)
        shells.append(new)
        # the object's own conventions must cover the new shell (on a copy: the dict may be a module table)
        from iodata.convert import HORTON2_CONVENTIONS

        conv = dict(data.obasis.conventions)
        for l, k_ in zip(angs, kinds_):
            conv.setdefault((l, k_), list(HORTON2_CONVENTIONS[(l, k_)]))
        obasis = MolecularBasis(shells, conv, data.obasis.primitive_normalization)
        mo = data.mo
        if mo is not None and mo.coeffs is not None:
            rows = new.nbasis * (2 if mo.kind == "generalized" else 1)
            coeffs_mo = np.concatenate([mo.coeffs, np.zeros((rows, mo.coeffs.shape[1]))], axis=0)
            mo = MolecularOrbitals(mo.kind, mo.norba, mo.norbb, mo.occs, coeffs_mo, mo.energies,
                                   mo.irreps, mo.occs_aminusb)
        data = attrs.evolve(data, obasis=obasis, mo=mo, one_rdms={})
    elif op == "pure_shell":
        # append one pure d shell on atom 0 (with zero MO coefficients)
        shells = list(data.obasis.shells)
        new = Shell(0, [2], ["p"], [0.8], [[1.0]])
        shells.append(new)
        obasis = MolecularBasis(shells, data.obasis.conventions, data.obasis.primitive_normalization)
        mo = data.mo
        if mo is not None and mo.coeffs is not None:
            coeffs = np.concatenate([mo.coeffs, np.zeros((5, mo.coeffs.shape[1]))], axis=0)
            mo = MolecularOrbitals(mo.kind, mo.norba, mo.norbb, mo.occs, coeffs, mo.energies,
                                   mo.irreps, mo.occs_aminusb)
        data = attrs.evolve(data, obasis=obasis, mo=mo, one_rdms={})
    elif op == "nonaufbau_near":
        # occupied orbitals that are almost, but not exactly, fully occupied (1.99999 instead of 2)
        mo = data.mo
        occs = np.array(mo.occs, float)
        full = 2.0 if mo.kind == "restricted" else 1.0
        hit = np.nonzero(occs == full)[0]
        if len(hit):
            occs[hit[0]] = full - 1.0e-5
            mo.occs = occs
        else:
            raise ValueError("no fully occupied orbital")
    elif op == "nonaufbau":
        mo = data.mo
        occs = np.array(mo.occs)
        nz = np.nonzero(occs)[0]
        zero = np.nonzero(occs == 0)[0]
        if mo.kind == "unrestricted":
            nz = nz[nz < mo.norba]
            zero = zero[zero < mo.norba]
        if len(nz) and len(zero):
            i, j = int(nz[-1]), int(zero[-1])
            occs[i], occs[j] = occs[j], occs[i]
        mo.occs = occs
    elif op == "nonaufbau_beta":
        # restricted orbitals whose alpha occupations are aufbau but whose beta occupations are not: [.., 2, 1, 2, 0, ..]
        mo = data.mo
        if mo.kind != "restricted":
            norb = mo.norba
            mo = MolecularOrbitals("restricted", norb, norb, np.array(mo.occsa) + np.array(mo.occsb[:norb]) if mo.norbb == norb else np.array(mo.occsa) * 2,
                                   np.array(mo.coeffsa), None if mo.energies is None else np.array(mo.energiesa))
        occs = np.round(np.array(mo.occs))
        two = np.nonzero(occs == 2)[0]
        if len(two) >= 2:
            occs[two[-2]] = 1.0
        data.mo = MolecularOrbitals("restricted", mo.norba, mo.norbb, occs, np.array(mo.coeffs),
                                    None if mo.energies is None else np.array(mo.energies))
    elif op == "drop_extra":
        data.extra.pop(mod["key"], None)
    elif op == "ghost":
        atnums = np.array(data.atnums)
        atnums[mod.get("iatom", 0)] = 0
        cor = np.array(data.atcorenums)
        cor[mod.get("iatom", 0)] = 0.0
        data.atnums = atnums
        data.atcorenums = cor
    elif op == "extra_nested":
        data.extra["nested"] = {"alist": [1, 2, [3, 4]], "adict": {"k": [1.5, "x"]}}
    elif op == "extra_nones":
        # None values deep inside the caller's nested extra dicts (JSON null), where the QCSchema writer passes them through
        data.extra["nested"] = {"note": None, "adict": {"k": None, "l": [{"m": None, "n": 1}]}}
        for key in ("molecule", "input", "output"):
            sub = data.extra.get(key)
            if isinstance(sub, dict):
                for name in ("extras", "keywords", "unparsed", "identifiers", "properties", "wavefunction"):
                    if name not in sub or isinstance(sub.get(name), dict):
                        sub.setdefault(name, {})
                        sub[name]["verif_null"] = None
                        sub[name]["verif_deeper"] = {"a": None, "b": [{"c": None}], "d": 2}
    elif op == "near_integer_occs":
        # occupations that are integers up to noise of a few 1e-9 (as printed and re-read by other programs)
        mo = data.mo
        if mo is not None and mo.occs is not None and mo.kind != "generalized":
            occs = np.array(mo.occs, float)
            noise = np.array([((i * 7) % 5 - 2) * 1.3e-9 for i in range(len(occs))])
            whole = np.abs(occs - np.round(occs)) < 1e-12
            occs = np.where(whole, occs + noise, occs)
            mo.occs = occs
    elif op == "title":
        data.title = mod["value"]
    else:
        raise ValueError(f"unknown mod {op}")
    return data


# --- seeded generators of recipes -------------------------------------------------------------

ELEMENTS = [1, 2, 3, 6, 7, 8, 9, 11, 14, 16, 17, 26, 35]
TITLES = ["water", "Created by sim", "frame", "a title with  spaces", "x", "12", "$$", "END of story",
          "@<TRIPOS>", "3", "H 0 0 0", "MODEL", "two lines\nas a PDB file with two TITLE records gives", "$$$$", "END",
          "@<TRIPOS>MOLECULE", " leading and trailing blanks ", "dos line ending\r\nsecond line", "old mac\rline", "tab\tinside",
          "form\x0cfeed", " ", "  \t", ""]


def random_mol_fields(rng, natom=None, with_bonds=False, with_charges=False, title=True,
                      pdb=False):
    natom = natom or rng.randint(1, 6)
    atnums = [rng.choice(ELEMENTS) for _ in range(natom)]
    atcoords = [[round(rng.uniform(-9, 9), rng.choice([1, 3, 5])) for _ in range(3)] for _ in range(natom)]
    f = {"atnums": atnums, "atcoords": atcoords}
    if title:
        t = rng.choice(TITLES)
        if rng.random() < 0.5:
            t = f"{t} {rng.randint(0, 999)}"
        f["title"] = t
    if with_bonds and natom >= 2:
        nb = rng.randint(0, min(4, natom * (natom - 1) // 2))
        pairs = set()
        while len(pairs) < nb:
            i, j = sorted(rng.sample(range(natom), 2))
            pairs.add((i, j))
        if pairs:
            f["bonds"] = [[i, j, rng.choice([1, 2, 3, 5])] for i, j in sorted(pairs)]
            # bond tables are not canonical: either atom of a pair may come first, and the rows need not be sorted
            if rng.random() < 0.5:
                f["bonds"] = [[j, i, t] if rng.random() < 0.5 else [i, j, t] for i, j, t in f["bonds"]]
            if rng.random() < 0.3:
                rng.shuffle(f["bonds"])
    if with_charges:
        f["atcharges"] = {"mol2charges": nd([round(rng.uniform(-1, 1), 3) for _ in range(natom)], "float")}
    if pdb:
        f["extra"] = {}
    return f


def random_mol(rng, **kw):
    return {"kind": "mol", "fields": random_mol_fields(rng, **kw), "mods": []}


def random_wfn(rng, restricted=None, max_l=2, pure=None):
    """Small random wavefunction: 1-3 atoms, s/p/d shells, random (non-orthonormal) orbitals."""
    natom = rng.randint(1, 3)
    atnums = [rng.choice([1, 2, 3, 6, 8]) for _ in range(natom)]
    atcoords = [[round(rng.uniform(-3, 3), 4) for _ in range(3)] for _ in range(natom)]
    shells = []
    nbasis = 0
    pure = rng.random() < 0.3 if pure is None else pure
    for ia in range(natom):
        for _ in range(rng.randint(1, 2)):
            l = rng.randint(0, max_l)
            kind = "p" if (pure and l >= 2) else "c"
            nexp = rng.randint(1, 3)
            exps = sorted((round(rng.uniform(0.1, 30.0), 5) for _ in range(nexp)), reverse=True)
            coeffs = [[round(rng.uniform(0.1, 1.0), 5)] for _ in range(nexp)]
            shells.append({"icenter": ia, "angmoms": [l], "kinds": [kind], "exponents": exps, "coeffs": coeffs})
            nbasis += (2 * l + 1) if kind == "p" else (l + 1) * (l + 2) // 2
    restricted = rng.random() < 0.6 if restricted is None else restricted
    nel = sum(atnums)
    norb = min(nbasis, max(1, (nel + 1) // 2 + rng.randint(0, 2)))
    nocc_a = min(norb, (nel + 1) // 2)
    nocc_b = min(norb, nel // 2)

    # Orthonormal orbitals (the Molden/Molekel loaders verify normalisation): C = S^-1/2 Q.
    from iodata.basis import MolecularBasis, Shell
    from iodata.convert import HORTON2_CONVENTIONS
    from iodata.overlap import compute_overlap

    ob = MolecularBasis(
        [Shell(s["icenter"], s["angmoms"], s["kinds"], s["exponents"], np.array(s["coeffs"], float)) for s in shells],
        HORTON2_CONVENTIONS, "L2")
    olp = compute_overlap(ob, np.array(atcoords, float))
    evals, evecs = np.linalg.eigh(olp)
    if evals.min() < 1e-6:
        # (nearly) linearly dependent basis: retry with another draw
        return random_wfn(rng, restricted, max_l, pure)
    s_inv_half = evecs @ np.diag(evals ** -0.5) @ evecs.T

    def cmat(n):
        blocks = []
        for _ in range(max(1, n // norb)):
            rnd = np.array([[rng.uniform(-1, 1) for _ in range(nbasis)] for _ in range(nbasis)])
            q, _r = np.linalg.qr(rnd)
            blocks.append((s_inv_half @ q)[:, :norb])
        return np.concatenate(blocks, axis=1).tolist()

    if restricted:
        occs = [2.0 if i < nocc_b else (1.0 if i < nocc_a else 0.0) for i in range(norb)]
        mo = {"kind": "restricted", "norba": norb, "norbb": norb, "occs": occs, "coeffs": cmat(norb),
              "energies": sorted(round(rng.uniform(-20, 2), 5) for _ in range(norb))}
    else:
        occs = [1.0 if i < nocc_a else 0.0 for i in range(norb)] + [1.0 if i < nocc_b else 0.0 for i in range(norb)]
        mo = {"kind": "unrestricted", "norba": norb, "norbb": norb, "occs": occs, "coeffs": cmat(2 * norb),
              "energies": sorted(round(rng.uniform(-20, 2), 5) for _ in range(norb)) * 2}
    fields = {"atnums": atnums, "atcoords": atcoords, "title": rng.choice(TITLES), "energy": round(rng.uniform(-200, -1), 6)}
    return {"kind": "wfn", "shells": shells, "mo": mo, "fields": fields, "mods": []}
