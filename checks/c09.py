"""C09 - dumping never alters the caller's data; conversions are explicit and equivalent.

Histories of dumps of the *same* object (with and without write faults, with allow_changes) and
baton-scheduled threads sharing one object, each dumping it to its own file while an observer
thread snapshots the object at seeded instants.
"""

import copy
import warnings

import numpy as np

from checks import c08
from sim import canon, common, gen, iters, sched, seams
from sim import shrink as shr
from sim.common import Stats

ID = "C09"
LEVEL = "exploration"
DEFAULT_SEED = 9009
BATCH = 4
TASK_TIMEOUT = 900
WALL_CAP = {"quick": 100, "thorough": 2400}
RULE = (
    "A run takes one object (corpus-loaded or generated; optionally with nested extra, occs_aminusb, generalized "
    "contractions, ghost atoms) and either (history) dumps it 1..4 times to seeded formats / input writers with "
    "allow_changes in {False,True} and optional write faults, or (threads) lets 2..4 scheduler-interleaved threads "
    "dump the same object to their own files while an observer thread snapshots it at seeded instants. After every "
    "call (and at every observer instant) the deep snapshot (hidden fields, array bytes, dict contents, public "
    "view; default core charges materialised on a copy first) must equal the initial one; without allow_changes "
    "the result is the same object or PrepareDumpError; with it, a new object iff PrepareDumpWarning, and the "
    "converted object has the same nelec, spinpol, densities and overlap matrix. Non-trivial = a dump succeeded or "
    "a fault fired; distinct = (object recipe, call list, faults, schedule hash)."
)
ASSUMPTIONS = [
    "filling in default core charges (and the accompanying _charge/_nelec re-representation) is not a change",
    "rebinding an attribute to an equal copy is not a change; only contents are compared",
    "wavefunction equivalence of conversions is checked on the objects the workload produces, not over its input domain",
]
COMPONENTS = {
    "real": ["iodata.api.dump_one/dump_many/write_input", "prepare/convert", "all writers", "threading"],
    "stub": ["SimDisk", "baton scheduler", "observer thread (snapshots)"],
}

GEOM = ["xyz", "sdf", "mol2", "pdb", "gaussian", "orca", "json_qcschema"]
WFN = ["fchk", "molden", "molekel", "wfn", "wfx"]
OUTNAME = {"xyz": "o.xyz", "sdf": "o.sdf", "mol2": "o.mol2", "pdb": "o.pdb", "poscar": "POSCAR_o", "cube": "o.cube",
           "fcidump": "o.fcidump", "json_qcschema": "o.json", "fchk": "o.fchk", "molden": "o.molden", "molekel": "o.mkl",
           "wfn": "o.wfn", "wfx": "o.wfx", "gaussian": "o.com", "orca": "o.inp"}
C = c08.C
OBJECTS = [
    # (recipe, formats worth trying)
    (C("water.xyz"), GEOM), (C("formamide.sdf"), GEOM), (C("benzene.mol2"), GEOM), (C("ch5plus.pdb"), GEOM),
    (C("POSCAR.water"), ["poscar", "xyz", "cube"]), (C("cubegen_h2o_5points.cube"), ["cube", "xyz", "poscar", "gaussian"]),
    (C("FCIDUMP.psi4.h2"), ["fcidump", "xyz"]),
    (C("CuSCN_molecule.json"), GEOM), (C("LiCl_STO4G_Gaussian_input.json"), GEOM), (C("LiCl_STO4G_Gaussian_output.json"), GEOM),
    (C("H2O_CCSDprTpr_STO3G_output.json"), GEOM), (C("CuSCN_molecule_nested_extra.json"), GEOM),
    (C("LiCl_STO4G_Gaussian_input_nested_extra.json"), GEOM), (C("Hydroxyl_radical_molecule.json"), GEOM),
    (C("water_cluster_ghost.json"), GEOM),
    (C("h2o_sto3g.fchk"), WFN + GEOM), (C("ch3_hf_sto3g.fchk"), WFN + GEOM), (C("ch3_rohf_sto3g_g03.fchk"), WFN + GEOM),
    (C("water_ccpvdz_pure_hf_g03.fchk"), WFN + GEOM), (C("h2o.molden.input"), WFN + GEOM), (C("h2_sto3g.mkl"), WFN + GEOM),
    (C("h2o_sto3g.wfn"), WFN + GEOM), (C("lih_cation_uhf.wfn"), WFN), (C("water_sto3g_hf.wfx"), WFN + GEOM),
    (C("lih_cation_rohf.wfx"), WFN), (C("he2_ghost_psi4_1.0.molden"), WFN + GEOM), (C("water_dimer_ghost.fchk"), WFN + GEOM),
    (C("li_h_3-21G_hf_g09.fchk"), WFN), (C("peroxide_opt.fchk"), ["fchk", "xyz"]),
]
MODS = [None, None, {"op": "extra_nested"}, {"op": "extra_nones"}, {"op": "extra_nones"}, {"op": "near_integer_occs"}, {"op": "near_integer_occs"},
        {"op": "mo_aminusb"}, {"op": "gen_contraction"}, {"op": "title", "value": None},
        # the caller changed a scalar attribute after loading (the dump must not write it back into nested extra dicts)
        {"op": "set", "attr": "energy", "value": -1.2345}, {"op": "set", "attr": "run_type", "value": "opt"},
        {"op": "set", "attr": "title", "value": "changed by the caller"}, {"op": "set", "attr": "lot", "value": "mp2"},
        {"op": "set", "attr": "obasis_name", "value": "cc-pvdz"}, {"op": "set", "attr": "g_rot", "value": 2.0},
        {"op": "mo_aminusb_zero"}, {"op": "conv_signs"}, {"op": "conv_signs"}, {"op": "asym_noise"}, {"op": "asym_noise"},
        {"op": "known_extras"}, {"op": "known_extras"}, {"op": "tiny_cube_values"}, {"op": "mo_aminusb_neg"}, {"op": "unsorted_centres"},
        {"op": "unsorted_centres"}, {"op": "title", "value": "a very long title " * 9},
        {"op": "gen_shell", "angmoms": [1, 0]}, {"op": "gen_shell", "angmoms": [0, 1]}, {"op": "gen_shell", "angmoms": [0, 0, 0]},
        {"op": "gen_shell", "angmoms": [2, 1]}, {"op": "gen_contraction", "scale": 0.0}, {"op": "gen_contraction", "scale": 0.0},
        {"op": "bonds_unsorted"}, {"op": "bonds_unsorted"}]
# two mods at once (e.g. occs_aminusb together with the optional extras a writer looks for)
MOD_PAIRS = [[{"op": "mo_aminusb"}, {"op": "known_extras"}], [{"op": "gen_contraction"}, {"op": "known_extras"}],
             [{"op": "mo_aminusb"}, {"op": "gen_shell", "angmoms": [1, 0]}], [{"op": "conv_signs"}, {"op": "known_extras"}]]

_GUARD = None


def setup_worker():
    global _GUARD
    import iodata.__main__  # noqa: F401

    sched.MONITOR.install(common.REPO)
    warnings.simplefilter("ignore")
    _GUARD = canon.TableGuard()


def snapshot(data):
    """Canonical deep snapshot, insensitive to the exempted lazy default of the core charges."""
    c = copy.deepcopy(data)
    try:
        _ = c.atcorenums  # materialise the default on the copy
        _ = c.charge
    except Exception:  # noqa: BLE001
        pass
    return canon.iodata_canon(c)


def _v(cls, msg, trace, extra=""):
    return {"cls": cls, "sig": f"{cls}|{extra}", "msg": msg, "trace": copy.deepcopy(trace)}


def array_flags(obj, path="", _seen=None, out=None):
    """(path, writeable) of every numpy array reachable from the object: properties of the caller's arrays that a deep copy loses."""
    import attrs

    _seen = set() if _seen is None else _seen
    out = [] if out is None else out
    if id(obj) in _seen:
        return out
    _seen.add(id(obj))
    if isinstance(obj, np.ndarray):
        out.append((path, bool(obj.flags.writeable)))
    elif isinstance(obj, dict):
        for k in sorted(obj, key=repr):
            array_flags(obj[k], f"{path}[{k!r}]", _seen, out)
    elif isinstance(obj, (list, tuple)):
        for i, v in enumerate(obj):
            array_flags(v, f"{path}[{i}]", _seen, out)
    elif attrs.has(type(obj)):
        for f in attrs.fields(type(obj)):
            array_flags(object.__getattribute__(obj, f.name), f"{path}.{f.name}", _seen, out)
    return out


def _density(mo):
    if mo is None or mo.coeffs is None or mo.occs is None or mo.kind == "generalized":
        return None
    ca, cb = mo.coeffsa, mo.coeffsb
    da = (ca * mo.occsa) @ ca.T
    db = (cb * mo.occsb) @ cb.T
    return da + db, da - db


def check_conversion(orig, conv, trace, call):
    """The returned object must denote the same wavefunction."""
    out = []
    name = call["fmt"]
    for attr in ("nelec", "spinpol", "charge"):
        a, b = getattr(orig, attr), getattr(conv, attr)
        if (a is None) != (b is None) or (a is not None and abs(a - b) > 1e-8):
            out.append(_v("conversion_changes_wfn", f"{name}: {attr} {a} -> {b} after conversion", trace, f"{name}/{attr}"))
    d0, d1 = _density(orig.mo), _density(conv.mo)
    if d0 is not None and d1 is not None and orig.obasis is not None and conv.obasis is not None:
        if orig.obasis.nbasis != conv.obasis.nbasis:
            out.append(_v("conversion_changes_wfn", f"{name}: nbasis {orig.obasis.nbasis} -> {conv.obasis.nbasis}", trace, f"{name}/nbasis"))
        elif d0[0].shape == d1[0].shape:
            if not (np.allclose(d0[0], d1[0], atol=1e-10) and np.allclose(d0[1], d1[1], atol=1e-10)):
                out.append(_v("conversion_changes_wfn", f"{name}: total/spin density matrix changed by the conversion", trace, f"{name}/dm"))
            if orig.obasis.nbasis <= 40:
                from iodata.overlap import compute_overlap

                s0 = compute_overlap(orig.obasis, orig.atcoords)
                s1 = compute_overlap(conv.obasis, conv.atcoords)
                if not np.allclose(s0, s1, atol=1e-10):
                    out.append(_v("conversion_changes_wfn", f"{name}: overlap matrix of the converted basis differs (functions or their order changed)", trace, f"{name}/olp"))
    return out


def caller_edit(data, kind):
    """In-place edits a caller may make between dumps (new arrays assigned to the same member objects)."""
    if kind == "scale_exponents" and data.obasis is not None:
        for sh in data.obasis.shells:
            sh.exponents = sh.exponents * 1.25
    elif kind == "scale_contraction" and data.obasis is not None:
        sh = data.obasis.shells[0]
        sh.coeffs = sh.coeffs * 0.5
    elif kind == "move_atom" and data.atcoords is not None:
        data.atcoords[0, 0] += 0.125
    elif kind == "permute_mo" and data.mo is not None and data.mo.coeffs is not None:
        data.mo.coeffs = data.mo.coeffs[::-1].copy()
    elif kind == "retitle":
        data.title = "edited between dumps"
    elif kind == "drop_shell" and data.obasis is not None and len(data.obasis.shells) > 1 and data.mo is not None \
            and data.mo.coeffs is not None and data.mo.kind != "generalized":
        last = data.obasis.shells[-1]
        nb = last.nbasis
        data.obasis.shells.pop()
        data.mo.coeffs = data.mo.coeffs[:-nb].copy()
        data.one_rdms.clear()


RELOAD_FORMATS = ("fchk", "molden", "molekel", "wfx", "wfn", "cube")


def check_written_file(data, call, disk, path, trace, stats=None):
    """The written file denotes the same wavefunction: what iodata itself reads back from it has the same electron
    count and spin polarisation as the object that was passed in."""
    import iodata

    out = []
    try:
        with warnings.catch_warnings():
            warnings.simplefilter("ignore")
            back = iodata.load_one(path, fmt=call["fmt"])
    except Exception:  # noqa: BLE001 - whether every written file can be read back is C01's subject
        return out
    if stats is not None:
        stats.inc("probe.written_files_read_back")
    if call["fmt"] == "cube":
        if data.cube is not None and back.cube is not None:
            a, b = np.asarray(data.cube.data, float), np.asarray(back.cube.data, float)
            if a.shape != b.shape or not np.allclose(a, b, rtol=2e-5, atol=1e-30):
                nbad = "shape" if a.shape != b.shape else int((~np.isclose(a, b, rtol=2e-5, atol=1e-30)).sum())
                out.append(_v("written_file_changes_data", f"cube: the grid read back from the file differs from the object's ({nbad} of {a.size} values)", trace, "cube/grid"))
        return out
    try:
        n0, s0 = data.nelec, data.spinpol
        n1, s1 = back.nelec, back.spinpol
    except NotImplementedError:
        return out
    if n0 is not None and n1 is not None and abs(n0 - n1) > 1e-4:
        out.append(_v("written_file_changes_wfn", f"{call['fmt']}: nelec {n0} was written but the file reads back {n1}", trace, f"{call['fmt']}/nelec"))
    if call["fmt"] != "wfn" and s0 is not None and s1 is not None and abs(s0 - s1) > 1e-4:
        out.append(_v("written_file_changes_wfn", f"{call['fmt']}: spinpol {s0} was written but the file reads back {s1}", trace, f"{call['fmt']}/spinpol"))
    # occupation of every orbital (formats that keep all orbitals in the given order)
    if call["fmt"] in ("fchk", "molden", "molekel") and data.mo is not None and back.mo is not None and data.mo.kind != "generalized":
        try:
            a0, b0, a1, b1 = data.mo.occsa, data.mo.occsb, back.mo.occsa, back.mo.occsb
        except NotImplementedError:
            return out
        if a0 is not None and a1 is not None and a0.shape == a1.shape and b0.shape == b1.shape:
            if not (np.allclose(a0, a1, atol=1e-5) and np.allclose(b0, b1, atol=1e-5)):
                out.append(_v("written_file_changes_wfn", f"{call['fmt']}: occupations alpha {list(a0)} beta {list(b0)} were written but the file reads back "
                              f"alpha {list(a1)} beta {list(b1)}", trace, f"{call['fmt']}/occs"))
    return out


class _NoRecorder:
    """Stand-in for warnings.catch_warnings in client threads: the warnings machinery is process-global state, which
    the harness only touches from the main thread (the API's own use of it is part of what is simulated)."""

    def __enter__(self):
        return []

    def __exit__(self, *exc):
        return False


def _discard_warning(*args, **kwargs):
    return None


def do_call(data, call, disk, prefix, record=True):
    """One dump / write_input of `data`.  Returns (result|None, exc|None, warnings list)."""
    import iodata

    fmt = call["fmt"]
    out = prefix + OUTNAME[fmt]
    plan = seams.WritePlan.from_faults(call.get("faults"))
    disk.plans[out] = plan
    res = exc = None
    with (warnings.catch_warnings(record=True) if record else _NoRecorder()) as wl:
        if record:
            warnings.simplefilter("always")
        try:
            if fmt in ("gaussian", "orca"):
                kw = copy.deepcopy(call.get("input_kwargs") or {})
                template = None
                if kw.pop("_template", False):
                    template = "{lot} {obasis_name} {title}\n{charge} {spinmult}\n{geometry}\n{extra}\n{atcharges}\n"
                iodata.write_input(data, out, fmt, template=template, **kw)
                res = data
            elif call.get("many"):
                iodata.dump_many(iter([data, data]), out, fmt=fmt, allow_changes=call["allow_changes"])
                res = data
            else:
                res = iodata.dump_one(data, out, fmt=fmt, allow_changes=call["allow_changes"])
        except Exception as e:  # noqa: BLE001
            exc = e
    return res, exc, [type(x.message).__name__ for x in wl], out, plan


def freeze_arrays(obj, _seen=None):
    """Every numpy array reachable from the object becomes read-only (in place); returns the object."""
    import attrs

    _seen = set() if _seen is None else _seen
    if id(obj) in _seen:
        return obj
    _seen.add(id(obj))
    if isinstance(obj, np.ndarray):
        obj.setflags(write=False)
    elif isinstance(obj, dict):
        for v in obj.values():
            freeze_arrays(v, _seen)
    elif isinstance(obj, (list, tuple)):
        for v in obj:
            freeze_arrays(v, _seen)
    elif attrs.has(type(obj)):
        for f in attrs.fields(type(obj)):
            freeze_arrays(object.__getattribute__(obj, f.name), _seen)
    return obj


def run_history(trace, stats=None):
    out = []
    data = gen.build(trace["obj"])
    if _GUARD is not None and _GUARD.changed():
        _GUARD.restore()  # cold start (see c16._cold_start)
    snap0 = snapshot(data)
    flags0 = array_flags(data)
    disk = seams.SimDisk(buffer_size=trace.get("buffer_size", 8192), log_events=False)
    nontriv = False
    import contextlib

    live = trace.get("live_iterator")
    with seams.Installed(disk), sched.Steps() as st, contextlib.ExitStack() as stack:
        outer = None
        if live:
            # the job listens to warnings from its start (one recorder around everything) and keeps a trajectory
            # iterator open while it dumps: every announcement must still reach the listener
            import iodata

            outer = stack.enter_context(warnings.catch_warnings(record=True))
            warnings.simplefilter("always")
            disk.put("live/traj.xyz", common.corpus_bytes("water_trajectory.xyz"))
            it = iodata.load_many("live/traj.xyz")
            next(it)
            stack.callback(it.close)
        for k, call in enumerate(trace["calls"]):
            if call.get("edit"):
                # the caller legitimately edits its own object between two dumps
                caller_edit(data, call["edit"])
                snap0 = snapshot(data)
                flags0 = array_flags(data)
                continue
            nw0 = len(outer) if outer is not None else 0
            res, exc, wl, path, plan = do_call(data, call, disk, f"h{k}/", record=outer is None)
            if outer is not None:
                wl = [type(x.message).__name__ for x in outer[nw0:]]
            et = type(exc).__name__ if exc is not None else "ok"
            snap = snapshot(data)
            if snap != snap0:
                d = canon.diff(snap0, snap)
                out.append(_v("argument_mutated", f"after call #{k} {call['fmt']} ({et}): {d[:3]}", {**trace, "calls": trace["calls"][: k + 1]},
                              f"{call['fmt']}/{d[0].split(':')[0][:60] if d else ''}"))
                snap0 = snap  # report each mutation once
            flags = array_flags(data)
            if flags != flags0 and not call.get("edit"):
                ch = [f"{p_}: writeable {dict(flags0).get(p_)} -> {w_}" for p_, w_ in flags if dict(flags0).get(p_, w_) != w_]
                if ch:
                    out.append(_v("argument_mutated", f"after call #{k} {call['fmt']} ({et}): flags of the caller's arrays changed: {ch[:3]}",
                                  {**trace, "calls": trace["calls"][: k + 1]}, f"{call['fmt']}/flags"))
                flags0 = flags
            if exc is None and call["fmt"] not in ("gaussian", "orca") and not call.get("many"):
                if not call["allow_changes"] and res is not data:
                    out.append(_v("silent_conversion", f"{call['fmt']}: a different object was returned without allow_changes", trace, call["fmt"]))
                if call["allow_changes"]:
                    if (res is not data) != ("PrepareDumpWarning" in wl):
                        out.append(_v("silent_conversion", f"{call['fmt']}: result is{' not' if res is not data else ''} the argument but "
                                      f"PrepareDumpWarning {'was' if 'PrepareDumpWarning' in wl else 'was not'} emitted", trace, call["fmt"]))
                    if res is not data:
                        out.extend(check_conversion(data, res, trace, call))
                        if stats is not None:
                            stats.inc("probe.conversions_checked")
            if exc is None and not plan.fired and not call.get("many") and call["fmt"] in RELOAD_FORMATS:
                out.extend(check_written_file(data, call, disk, path, trace, stats))
            if trace.get("readonly") and not call.get("faults"):
                # a caller may hand over arrays it cannot (or must not) write to: memory-mapped files, arrays frozen with
                # setflags(write=False).  A writer that leaves its argument alone behaves the same on such an object.
                ro = freeze_arrays(copy.deepcopy(data))
                _r2, exc2, _w2, path2, _p2 = do_call(ro, call, disk, f"h{k}ro/")
                et2 = type(exc2).__name__ if exc2 is not None else "ok"
                if et2 != et or (exc is None and disk.get(path2) != disk.get(path)):
                    out.append(_v("needs_writable_argument", f"call #{k} {call['fmt']}: {et} with ordinary arrays but {et2}"
                                  f"{': ' + str(exc2)[:120] if exc2 is not None else ' / other bytes'} when the object's arrays are read-only",
                                  {**trace, "calls": trace["calls"][: k + 1]}, call["fmt"]))
                if stats is not None:
                    stats.inc("probe.readonly_argument_runs")
            if stats is not None:
                stats.inc(f"outcome.{et}")
                for kind, _k in plan.fired:
                    stats.inc(f"fault.{kind}")
                if exc is None or plan.fired:
                    nontriv = True
    ch = _GUARD.changed() if _GUARD else []
    if ch:
        _GUARD.restore()
    if stats is not None:
        stats.inc("steps", st.steps)
    return out, nontriv


def run_threads(trace, rng=None, stats=None):
    out = []
    data = gen.build(trace["obj"])
    if _GUARD is not None and _GUARD.changed():
        _GUARD.restore()  # cold start (see c16._cold_start)
    snap0 = snapshot(data)
    disk = seams.SimDisk(log_events=False)
    policy = tuple(trace["policy"])
    if trace.get("schedule") is not None:
        policy = ("replay", trace["schedule"])
    baton = sched.Baton(rng, policy, horizon=trace.get("horizon", 8000))
    disk.sched = baton
    calls = trace["calls"]
    results = [None] * len(calls)
    observed = []

    def make(i):
        def body():
            results[i] = do_call(data, calls[i], disk, f"t{i}/", record=False)
        return body

    def observer():
        for r in range(trace.get("observations", 6)):
            s = snapshot(data)
            if s != snap0:
                observed.append((r, canon.diff(snap0, s)[:3]))
            baton.seam_point("observe")

    fns = [make(i) for i in range(len(calls))] + [observer]
    # every thread's solo run on a fresh copy first: reference bytes, and the step budget of the threaded run
    import iodata  # noqa: F401

    solos = []
    solo_steps = 0
    for i, call in enumerate(calls):
        solo_disk = seams.SimDisk(log_events=False)
        solo = gen.build(trace["obj"])
        with seams.Installed(solo_disk), sched.Steps() as sst:
            _res, sexc, _wl, spath, _pl = do_call(solo, {**call, "faults": None}, solo_disk, f"t{i}/")
        solos.append((sexc, solo_disk.get(spath)))
        solo_steps += sst.steps
    if _GUARD is not None and _GUARD.changed():
        _GUARD.restore()
    budget = 4 * solo_steps + 4000 * trace.get("observations", 6) + 50_000
    # the application's warning configuration (set from the main thread, before the clients start)
    wstate = (warnings.filters[:], warnings.showwarning, getattr(warnings, "_showwarnmsg_impl", None))
    warnings.resetwarnings()
    warnings.simplefilter(trace.get("wfilter") or "always")
    warnings.showwarning = _discard_warning
    try:
        with seams.Installed(disk), sched.Steps(budget=budget, sched=baton) as st:
            done = baton.run(fns)
    except sched.SchedulerStall as exc:
        return [_v("stall_under_interleaving", str(exc), trace, "stall")], baton, 0
    finally:
        warnings.filters[:] = wstate[0]
        warnings.showwarning = wstate[1]
        if wstate[2] is not None:
            warnings._showwarnmsg_impl = wstate[2]
        warnings._filters_mutated()
    for c in done:
        if isinstance(c.error, sched.StepBudgetExceeded):
            out.append(_v("no_termination_under_interleaving", f"client {c.idx} ({calls[c.idx]['fmt'] if c.idx < len(calls) else 'observer'}) had not returned when the run "
                          f"had taken {budget} steps (the calls take {solo_steps} steps alone): {c.error}", trace, "budget"))
        elif c.error is not None:
            out.append(_v("client_died", f"client {c.idx}: {type(c.error).__name__}: {c.error}", trace, type(c.error).__name__))
    if observed:
        out.append(_v("argument_mutated", f"observer saw the shared object modified while dumps were in flight: {observed[0][1]}", trace, "observer"))
    snap = snapshot(data)
    if snap != snap0:
        d = canon.diff(snap0, snap)
        out.append(_v("argument_mutated", f"shared object changed by concurrent dumps: {d[:3]}", trace, f"threads/{d[0].split(':')[0][:60] if d else ''}"))
    # each thread's bytes equal the solo run on a fresh copy
    for i, call in enumerate(calls):
        r = results[i]
        if r is None:
            continue
        sexc, b = solos[i]
        a = disk.get(r[3])
        ea = type(r[1]).__name__ if r[1] is not None else None
        eb = type(sexc).__name__ if sexc is not None else None
        if ea != eb or (ea is None and a != b):
            out.append(_v("bytes_differ_under_interleaving", f"thread {i} {call['fmt']}: outcome {ea or 'ok'} / bytes differ from the solo run ({eb or 'ok'})", trace, call["fmt"]))
    ch = _GUARD.changed() if _GUARD else []
    if ch:
        _GUARD.restore()
    nsw = sum(1 for s in baton.switches if s[0] > 0)
    if stats is not None:
        stats.inc("steps", st.steps)
        stats.inc("probe.switches_inside_dumps", nsw)
    return out, baton, nsw


def execute(trace):
    if trace["mode"] == "history":
        return run_history(trace)[0]
    return run_threads(trace, rng=common.rng_for("replay"))[0]


def gen_trace(rng):
    recipe, fmts = rng.choice(OBJECTS)
    recipe = copy.deepcopy(recipe)
    mod = rng.choice(MODS)
    if recipe["file"].endswith(".cube") and rng.random() < 0.7:
        mod = rng.choice([{"op": "tiny_cube_values"}, {"op": "cube_layout", "how": "fortran"}, {"op": "cube_layout", "how": "transposed_view"}])  # (the one volumetric source: its special values would otherwise be drawn too rarely)
    wfn_like = recipe["file"].endswith((".fchk", ".molden.input", ".mkl", ".wfn", ".wfx", ".molden"))
    if wfn_like and rng.random() < 0.12:
        recipe["mods"] = copy.deepcopy(rng.choice(MOD_PAIRS))
        mod = None
    if mod is not None and (mod["op"] in ("extra_nested", "extra_nones", "title", "set", "asym_noise", "known_extras", "tiny_cube_values", "cube_layout") or recipe["file"].endswith((".fchk", ".molden.input", ".mkl", ".wfn", ".wfx", ".molden"))):
        recipe["mods"] = [mod]
    def call():
        fmt = rng.choice(fmts) if rng.random() < 0.85 else rng.choice(sorted(OUTNAME))
        c = {"fmt": fmt, "allow_changes": rng.random() < 0.5}
        if fmt in ("gaussian", "orca") and rng.random() < 0.5:
            # user fields for the template; some are dicts named like dict attributes of IOData
            c["input_kwargs"] = rng.choice([
                {"lot": "b3lyp"}, {"title": "user title", "obasis_name": "6-31g"},
                {"_template": True, "extra": {"mem": "16GB", "nproc": 4}}, {"_template": True, "atcharges": {"esp": [0.1, -0.1]}},
                {"_template": True, "extra": {"nested": {"alist": [9]}}, "atffparams": {"attypes": ["X"]}},
            ])
        if fmt in ("xyz", "sdf", "mol2", "pdb") and rng.random() < 0.15:
            c["many"] = True
        return c
    if rng.random() < 0.6:
        calls = [call() for _ in range(rng.randint(1, 4))]
        if len(calls) >= 2 and rng.random() < 0.45:
            pos = rng.randint(1, len(calls) - 1)
            calls.insert(pos, {"edit": rng.choice(["scale_exponents", "scale_contraction", "move_atom", "permute_mo", "retitle", "drop_shell"]),
                               "fmt": "-", "allow_changes": False})
            if rng.random() < 0.5:
                # same target format before and after the edit
                calls[pos + 1] = dict(calls[pos - 1])
        for c in calls:
            if c.get("edit"):
                continue
            r = rng.random()
            if r < 0.12:
                c["faults"] = [{"kind": "text_write_fail", "k": rng.randint(0, 60), "errno": "ENOSPC"}]
            elif r < 0.2:
                c["faults"] = [{"kind": "raw_write_fail", "k": rng.randint(0, 3), "errno": "EIO"}]
            elif r < 0.25:
                c["faults"] = [{"kind": "close_fail", "errno": "EIO"}]
            elif r < 0.33:
                c["faults"] = [{"kind": "disk_full", "capacity": rng.choice([0, 10, 100, 700, 5000])}]
        return {"mode": "history", "obj": recipe, "calls": calls, "buffer_size": rng.choice([16, 8192]), "readonly": rng.random() < 0.35,
                "live_iterator": rng.random() < 0.2}
    n = rng.randint(2, 4)
    calls = [call() for _ in range(n)]
    r = rng.random()
    policy = (["random", rng.choice([0.002, 0.01, 0.05])] if r < 0.3 else
              ["newline", rng.choice([0.002, 0.01]), rng.choice([0.02, 0.1, 0.3])] if r < 0.5 else
              # pre-empt right after process-global state was touched (module-level names, the warnings machinery)
              ["gstore", rng.choice([0.002, 0.01]), rng.choice([0.25, 0.5])] if r < 0.8 else ["pct", rng.choice([1, 2, 3])])
    return {"mode": "threads", "obj": recipe, "calls": calls, "policy": policy, "schedule": None,
            "observations": rng.randint(2, 12), "horizon": 6000}


def plan(tier, seed, args):
    n = args.runs or (3500 if tier == "quick" else 50000)
    return [{"run": i, "seed": seed, "tier": tier} for i in range(n)]


def run_task(task):
    rng = common.rng_for(task["seed"], ID, task["run"])
    stats = Stats()
    trace = gen_trace(rng)
    # reach: which object variants and target formats the workload really contained (a generator that silently drops
    # a variant shows up here as a missing counter)
    for m_ in trace["obj"].get("mods") or [None]:
        stats.inc("probe.variant_" + (m_["op"] if m_ else "unmodified"))
    for c_ in trace["calls"]:
        if not c_.get("edit"):
            stats.inc("probe.format_" + c_["fmt"])
    if trace["mode"] == "history":
        viols, nontriv = run_history(trace, stats)
        if nontriv:
            stats.add("nontrivial", common.short(common.jdump(trace)))
        stats.inc("probe.history_runs")
        dig = common.short(repr([(v["cls"], v["msg"]) for v in viols]) + common.jdump(trace))
        sample = {"mode": "history", "object": trace["obj"]["file"], "mods": trace["obj"]["mods"], "calls": trace["calls"]}
    else:
        srng = common.rng_for(task["seed"], ID, task["run"], "schedule")
        viols, baton, nsw = run_threads(trace, srng, stats)
        for v in viols:
            v["trace"]["schedule"] = baton.replay_list()
        if nsw:
            stats.add("nontrivial", common.short(common.jdump(trace) + repr(baton.switches)))
        stats.add("schedules", common.short(repr(baton.switches)))
        stats.inc("probe.threaded_runs")
        dig = common.short(repr([(v["cls"], v["msg"]) for v in viols]) + repr(baton.switches))
        sample = {"mode": "threads", "object": trace["obj"]["file"], "mods": trace["obj"]["mods"], "calls": trace["calls"],
                  "policy": trace["policy"], "switches": len(baton.switches), "first_switches": baton.switches[:5]}
    return {"n": 1, "digest": dig, "violations": viols, "stats": stats.export(), "sample": sample if task["run"] % 53 == 0 else None}


def shrink(trace, still_fails):
    t = copy.deepcopy(trace)
    if t["mode"] == "history":
        calls = shr.ddmin_list(t["calls"], lambda cs: still_fails({**t, "calls": cs}), min_len=1)
        t["calls"] = calls
        for i, c in enumerate(t["calls"]):
            if c.get("faults"):
                t2 = copy.deepcopy(t)
                t2["calls"][i]["faults"] = None
                if still_fails(t2):
                    t = t2
        if t["obj"].get("mods"):
            t2 = copy.deepcopy(t)
            t2["obj"]["mods"] = []
            if still_fails(t2):
                t = t2
        return t
    if t.get("schedule"):
        t["schedule"] = shr.ddmin_list(t["schedule"], lambda s: still_fails({**t, "schedule": s}))
    return t


def coverage_extra(stats, tier):
    return {
        "distinct_interleavings": stats.distinct("schedules"),
        "fault_kinds_configured": ["text_write_fail", "raw_write_fail", "close_fail", "context switch inside a dump", "observer snapshot mid-dump"],
        "simulated_time": "logical steps (LINE events inside iodata)",
    }
