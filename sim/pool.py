"""Fork-based worker pool with a wall-clock watchdog per batch.

Determinism: every task carries its own run index; the worker derives everything from
(seed, property, run index).  Results are returned in task order, whatever the worker count.
"""

import faulthandler
import json
import multiprocessing
import os
import resource
import sys
import time
import traceback
from concurrent.futures import ProcessPoolExecutor, as_completed
from concurrent.futures.process import BrokenProcessPool

_WORKER_FN = None
_WORKER_TIMEOUT = 600


class HarnessTimeout(Exception):
    pass


def default_workers():
    w = os.environ.get("VERIF_WORKERS")
    if w:
        return max(1, int(w))
    return max(1, min(16, os.cpu_count() or 1))


def _init(setup, timeout, mem_gib):
    global _WORKER_TIMEOUT
    _WORKER_TIMEOUT = timeout
    if mem_gib:
        try:
            lim = int(mem_gib * (1 << 30))
            resource.setrlimit(resource.RLIMIT_AS, (lim, lim))
        except (ValueError, OSError):
            pass
    if setup is not None:
        setup()


def _run_batch(args):
    fn, batch = args
    faulthandler.dump_traceback_later(_WORKER_TIMEOUT, exit=True)
    try:
        out = []
        for task in batch:
            try:
                _t0 = time.time()
                out.append(fn(task))
                if os.environ.get("VERIF_TASKTIME") and time.time() - _t0 > float(os.environ["VERIF_TASKTIME"]):
                    sys.stderr.write(f"SLOWTASK {time.time() - _t0:.1f}s {json.dumps(task, default=str)[:300]}\n")
            except MemoryError:
                out.append({"harness_error": "MemoryError in harness", "task": task})
            except Exception:  # noqa: BLE001
                out.append({"harness_error": traceback.format_exc(), "task": task})
        return out
    finally:
        faulthandler.cancel_dump_traceback_later()


def run_tasks(fn, tasks, setup=None, workers=None, batch=8, timeout=600, mem_gib=4, progress=None,
              wall_cap=None):
    """Run fn(task) for all tasks; returns results in task order.

    wall_cap: after this many seconds no *new* batch is started (remaining tasks are reported as
    skipped with result None); used by quick tiers so that a slow machine does not time out.
    """
    workers = workers or default_workers()
    tasks = list(tasks)
    results = [None] * len(tasks)
    if not tasks:
        return results
    batches = [(i, tasks[i : i + batch]) for i in range(0, len(tasks), batch)]
    t0 = time.time()
    if workers == 1:
        _init(setup, timeout, None)
        for i, b in batches:
            if wall_cap is not None and time.time() - t0 > wall_cap:
                break
            for j, r in enumerate(_run_batch((fn, b))):
                results[i + j] = r
        return results
    ctx = multiprocessing.get_context("fork")
    sys.stdout.flush()
    sys.stderr.flush()
    with ProcessPoolExecutor(
        max_workers=workers, mp_context=ctx, initializer=_init, initargs=(setup, timeout, mem_gib)
    ) as ex:
        pending = {}
        it = iter(batches)
        inflight_max = workers * 3

        def submit_more():
            while len(pending) < inflight_max:
                if wall_cap is not None and time.time() - t0 > wall_cap:
                    return
                try:
                    i, b = next(it)
                except StopIteration:
                    return
                pending[ex.submit(_run_batch, (fn, b))] = i

        submit_more()
        done_count = 0
        try:
            while pending:
                for fut in as_completed(list(pending)):
                    i = pending.pop(fut)
                    res = fut.result()
                    for j, r in enumerate(res):
                        results[i + j] = r
                    done_count += len(res)
                    if progress:
                        progress(done_count, len(tasks))
                    submit_more()
                    break
        except BrokenProcessPool as exc:
            raise HarnessTimeout(
                "a worker died (watchdog timeout, OOM kill or crash); see stderr for the traceback"
            ) from exc
    return results
