"""SimDisk: the in-process file system behind iodata's two `open` seams.

Seams: `iodata.utils.open` (LineIterator.__enter__) and `iodata.api.open` (dump_one, dump_many,
write_input).  Both are plain global-name lookups that fall through to builtins, so assigning
a module attribute replaces them without touching the source.

Write path:  SimRawW(io.RawIOBase) <- real io.BufferedWriter(buffer_size knob) <- SimTextW
(a real io.TextIOWrapper subclass that only counts / faults the text-level write calls).
Faults are injected where the kernel would produce them: raw write / close.
Read path:   bytes -> io.BytesIO -> SimTextR (a real io.TextIOWrapper subclass counting
line deliveries, EOF hits and read() calls).
"""

import errno as _errno
import io
import os

ERRNOS = {"ENOSPC": _errno.ENOSPC, "EIO": _errno.EIO, "EDQUOT": _errno.EDQUOT, "EPIPE": _errno.EPIPE,
          "EFBIG": _errno.EFBIG, "ENXIO": _errno.ENXIO, "EROFS": _errno.EROFS,
          # error numbers without a symbolic name in Python's errno module (e.g. ENOTSUPP leaking from NFS/overlayfs)
          "E524": 524, "E133": 133}


class SimCrash(BaseException):
    """The simulated process dies here (not catchable by `except Exception`)."""


class WritePlan:
    """Concrete write-side fault plan for one target path.

    text_fail: {k: errname}   k-th text-level write() raises OSError
    raw_fail:  {k: errname}   k-th raw write raises OSError
    raw_short: {k: n}         k-th raw write accepts only n bytes (n >= 1)
    close_fail: errname|None  close(2) reports an error (handle is released anyway)
    """

    def __init__(self, text_fail=None, raw_fail=None, raw_short=None, close_fail=None):
        self.text_fail = {int(k): v for k, v in (text_fail or {}).items()}
        self.raw_fail = {int(k): v for k, v in (raw_fail or {}).items()}
        self.raw_short = {int(k): int(v) for k, v in (raw_short or {}).items()}
        self.close_fail = close_fail
        self.capacity = None  # disk_full: bytes the device still accepts; afterwards every raw write fails (persistently)
        self.fired = []  # (kind, k)

    @classmethod
    def from_faults(cls, faults):
        plan = cls()
        for f in faults or []:
            kind = f["kind"]
            if kind == "text_write_fail":
                plan.text_fail[int(f["k"])] = f.get("errno", "ENOSPC")
            elif kind == "raw_write_fail":
                plan.raw_fail[int(f["k"])] = f.get("errno", "ENOSPC")
            elif kind == "raw_short_write":
                plan.raw_short[int(f["k"])] = int(f["n"])
            elif kind == "close_fail":
                plan.close_fail = f.get("errno", "EIO")
            elif kind == "disk_full":
                plan.capacity = int(f["capacity"])
            else:
                raise ValueError(f"not a write-side fault: {kind}")
        return plan

    def any_failing(self):
        return bool(self.text_fail or self.raw_fail or self.close_fail or self.capacity is not None)


def _oserror(errname, path):
    code = ERRNOS[errname]
    if errname == "EPIPE" and os.environ.get("IODATA_VERIF_SIM"):
        # inside a simulated `python -m iodata` process: the kernel delivers SIGPIPE before write(2) returns EPIPE; a
        # process that restored the default disposition dies here, silently, with status -13
        import signal

        if signal.getsignal(signal.SIGPIPE) == signal.SIG_DFL:
            os.kill(os.getpid(), signal.SIGPIPE)
    return OSError(code, os.strerror(code), path)


class SimRawW(io.RawIOBase):
    """Raw write handle: what write(2)/close(2) would see."""

    def __init__(self, disk, path, hid):
        super().__init__()
        self.disk = disk
        self.name = path
        self.path = path
        self.hid = hid
        self.mode = "wb"
        self.nraw = 0
        self.pos = 0
        self.sim_closed = False

    def writable(self):
        return True

    def fileno(self):
        # a simulated descriptor: os.fstat (and only that) understands it while the seams are installed
        if not hasattr(self, "_fd"):
            self._fd = self.disk.fd_for(self.path)
        return self._fd

    def write(self, b):
        disk = self.disk
        disk.yield_point("raw_write")
        data = bytes(b)
        k = self.nraw
        self.nraw += 1
        plan = disk.plans.get(self.path)
        if plan is not None and k in plan.raw_fail:
            plan.fired.append(("raw_write_fail", k))
            disk.log("rwrite_fail", self.path, hid=self.hid, k=k, n=len(data))
            raise _oserror(plan.raw_fail[k], self.path)
        n = len(data)
        if plan is not None and plan.capacity is not None:
            left = plan.capacity - self.pos
            if left <= 0:
                # a full disk stays full: this and every later write (incl. the flush at close) fails
                if ("disk_full", 0) not in plan.fired:
                    plan.fired.append(("disk_full", 0))
                disk.log("rwrite_fail", self.path, hid=self.hid, k=k, n=len(data))
                raise _oserror("ENOSPC", self.path)
            n = min(n, left)
        if plan is not None and k in plan.raw_short and n > 1:
            n = max(1, min(n - 1, plan.raw_short[k]))
            plan.fired.append(("raw_short_write", k))
        buf = disk.files.setdefault(self.path, bytearray())
        buf[self.pos : self.pos + n] = data[:n]
        disk.log("rwrite", self.path, hid=self.hid, k=k, off=self.pos, n=n, req=len(data))
        self.pos += n
        return n

    def close(self):
        if self.sim_closed:
            return
        self.sim_closed = True
        try:
            super().close()
        finally:
            self.disk.log("rclose", self.path, hid=self.hid)
            self.disk.yield_point("close")
        plan = self.disk.plans.get(self.path)
        if plan is not None and plan.close_fail:
            plan.fired.append(("close_fail", 0))
            raise _oserror(plan.close_fail, self.path)


class SimTextW(io.TextIOWrapper):
    """Real TextIOWrapper; only counts (and optionally fails) text-level write calls."""

    def __init__(self, disk, path, hid, buffered, **kw):
        super().__init__(buffered, **kw)
        self._sim = (disk, path, hid)
        self.ntext = 0

    def write(self, s):
        disk, path, hid = self._sim
        k = self.ntext
        self.ntext += 1
        plan = disk.plans.get(path)
        if plan is not None and k in plan.text_fail:
            plan.fired.append(("text_write_fail", k))
            disk.log("twrite_fail", path, hid=hid, k=k)
            raise _oserror(plan.text_fail[k], path)
        disk.log("twrite", path, hid=hid, k=k, n=len(s))
        return super().write(s)


class ShortReadRaw(io.RawIOBase):
    """Unseekable byte source that delivers at most `n` bytes per read call, like a pipe, a socket-backed
    file system or a slow device may (legal for read(2); nothing may depend on how the bytes are portioned)."""

    def __init__(self, data, n, counter=None):
        super().__init__()
        self._data = data
        self._pos = 0
        self._n = max(1, int(n))
        self._counter = counter

    def readable(self):
        return True

    def readinto(self, b):
        k = min(len(b), self._n, len(self._data) - self._pos)
        b[:k] = self._data[self._pos:self._pos + k]
        self._pos += k
        if self._counter is not None and k:
            self._counter[0] += 1
        return k


class SimTextR(io.TextIOWrapper):
    """Real TextIOWrapper over the stored bytes; counts what the reader pulled."""

    def __init__(self, disk, path, hid, data, **kw):
        if getattr(disk, "short_read", None):
            disk.short_reads = getattr(disk, "short_reads", None) or [0]
            self._raw = io.BufferedReader(ShortReadRaw(data, disk.short_read, disk.short_reads), buffer_size=max(16, int(disk.short_read)))
        else:
            self._raw = io.BytesIO(data)
        super().__init__(self._raw, **kw)
        self._sim = (disk, path, hid)
        self.path = path
        self.hid = hid
        self.nlines = 0
        self.neof = 0
        self.nread = 0
        self.sim_closed = False
        self._in_next = False
        self.nerr = 0

    @property
    def name(self):
        return self._sim[1]

    def fileno(self):
        if not hasattr(self, "_fd"):
            self._fd = self._sim[0].fd_for(self._sim[1])
        return self._fd

    def __next__(self):
        disk = self._sim[0]
        disk.yield_point("readline")
        # TextIOWrapper.__next__ of a subclass calls self.readline(): count only once.
        self._in_next = True
        try:
            line = super().__next__()
        except StopIteration:
            self.neof += 1
            if self.neof > disk.eof_limit:
                raise disk.liveness_exc(f"EOF hit {self.neof} times on {self.path}") from None
            raise
        except BaseException:
            self.nerr += 1  # e.g. UnicodeDecodeError: a read attempt that delivered nothing
            raise
        finally:
            self._in_next = False
        self.nlines += 1
        return line

    def readline(self, *a):
        line = super().readline(*a)
        if not self._in_next:
            if line == "":
                self.neof += 1
            else:
                self.nlines += 1
        return line

    def read(self, *a):
        self.nread += 1
        if (not a or a[0] is None or a[0] < 0) and self.nlines > 0:
            self.bulk_after_lines = getattr(self, "bulk_after_lines", 0) + 1  # rest of the file taken in one piece, after line-wise reading on this handle
        return super().read(*a)

    def close(self):
        if not self.sim_closed:
            self.sim_closed = True
            disk, path, hid = self._sim
            disk.log("rdclose", path, hid=hid, lines=self.nlines, eof=self.neof, reads=self.nread)
        super().close()


class SimLiveness(BaseException):
    """Raised by the seam when a reader keeps pulling at EOF (deterministic hang detection)."""


class _PathDict(dict):
    """dict keyed by simulated paths; every key goes through the disk's path resolution."""

    def __init__(self, disk):
        super().__init__()
        self._disk = disk

    def _k(self, key):
        return self._disk.resolve(key)

    def __getitem__(self, key):
        return super().__getitem__(self._k(key))

    def __setitem__(self, key, value):
        super().__setitem__(self._k(key), value)

    def __delitem__(self, key):
        super().__delitem__(self._k(key))

    def __contains__(self, key):
        try:
            return super().__contains__(self._k(key))
        except TypeError:
            return False

    def get(self, key, default=None):
        return super().get(self._k(key), default)

    def pop(self, key, *a):
        return super().pop(self._k(key), *a)

    def setdefault(self, key, default=None):
        return super().setdefault(self._k(key), default)


class SimDisk:
    def __init__(self, buffer_size=8192, chunk_size=None, encoding="utf-8", log_events=True, short_read=None):
        self.short_read = short_read  # raw reads deliver at most this many bytes per call (None: everything asked for)
        self.short_reads = [0]
        # Paths are resolved the way the operating system does it: relative to the working directory, "." and
        # ".." component by component, symbolic links to directories followed (so "link/.." is the parent of the
        # link's target, not of the link).
        self.cwd = os.getcwd()
        self.symlinks = {}  # absolute path of the link -> absolute target directory
        self.files = _PathDict(self)  # path -> bytearray
        self.plans = _PathDict(self)  # path -> WritePlan
        self.events = []
        self.handles = []  # every handle ever opened (raw writers and text readers)
        self.seq = 0
        self.buffer_size = buffer_size
        self.chunk_size = chunk_size
        self.encoding = encoding
        self.log_events = log_events
        self.eof_limit = 100000
        self.liveness_exc = SimLiveness
        self.sched = None  # optional baton scheduler (threaded runs)
        self.real_opens = []  # attempted opens of paths that are not simulated
        # directories: every directory exists unless it lies in/below a path declared missing (and not created since)
        self.missing = set()  # resolved paths of directories that do not exist
        self.made_dirs = set()  # directories created through the seams during the run
        self.cwd_gone = False  # the working directory was removed under the process (os.getcwd raises)
        self.fake_fds = {}  # descriptor returned by the os.open seam -> (path, flags)
        self.versions = {}  # resolved path -> number of times it was opened for writing / replaced (stands in for mtime)

    def fd_for(self, path):
        fd = 10_000_000 + len(self.fake_fds)
        self.fake_fds[fd] = (path, 0)
        return fd

    def resolve(self, path, follow_last=True):
        p = os.fspath(path)
        if isinstance(p, bytes):
            p = os.fsdecode(p)
        if not p.startswith("/"):
            p = self.cwd.rstrip("/") + "/" + p
        comps = [c for c in p.split("/") if c not in ("", ".")]
        cur = []
        for i, comp in enumerate(comps):
            if comp == "..":
                if cur:
                    cur.pop()
                continue
            cur.append(comp)
            if i == len(comps) - 1 and not follow_last:
                break  # lstat / rename / unlink semantics: the last component names the directory entry itself
            for _hop in range(8):  # a link may point to another link
                target = self.symlinks.get("/" + "/".join(cur))
                if target is None:
                    break
                cur = [c for c in target.split("/") if c]
        return "/" + "/".join(cur)

    # -- directories -----------------------------------------------------------------------
    def declare_missing(self, path):
        """The directory `path` (and everything below it) does not exist until something creates it."""
        self.missing.add(self.resolve(path))

    def _missing_ancestor(self, rp):
        """The outermost declared-missing directory that `rp` (resolved) lies in or equals, or None."""
        best = None
        for m in self.missing:
            if rp == m or rp.startswith(m.rstrip("/") + "/"):
                if best is None or len(m) < len(best):
                    best = m
        return best

    def dir_exists(self, path):
        rp = self.resolve(path)
        if super(_PathDict, self.files).__contains__(rp):
            return False
        if self._missing_ancestor(rp) is not None:
            return False
        if rp in self.made_dirs or rp == "/" or self.cwd == rp or self.cwd.startswith(rp.rstrip("/") + "/"):
            return True
        pre = rp.rstrip("/") + "/"
        return any(k.startswith(pre) for k in dict.keys(self.files)) or any(k.startswith(pre) for k in self.made_dirs)

    def parent_exists(self, path):
        rp = self.resolve(path, follow_last=False)
        parent = rp.rsplit("/", 1)[0] or "/"
        return self._missing_ancestor(parent) is None

    def makedirs(self, path, exist_ok=False):
        rp = self.resolve(path)
        if super(_PathDict, self.files).__contains__(rp):
            raise FileExistsError(17, "File exists", os.fspath(path))
        m = self._missing_ancestor(rp)
        if m is None:
            if not exist_ok:
                raise FileExistsError(17, "File exists", os.fspath(path))
            return
        # create m, ..., rp: everything else below m stays missing
        self.missing.discard(m)
        chain = [m]
        rest = rp[len(m):].strip("/")
        for comp in (rest.split("/") if rest else []):
            chain.append(chain[-1].rstrip("/") + "/" + comp)
        for d in chain:
            self.made_dirs.add(d)
            self.log("mkdir", d)
        # siblings of the created chain below m do not exist: nothing to do (directories not created are simply absent
        # because nothing lives in them); but deeper missing declarations below rp are kept

    def mkdir(self, path):
        rp = self.resolve(path)
        parent = rp.rsplit("/", 1)[0] or "/"
        if self._missing_ancestor(parent) is not None:
            raise FileNotFoundError(2, "No such file or directory", os.fspath(path))
        if self._missing_ancestor(rp) is None or super(_PathDict, self.files).__contains__(rp):
            raise FileExistsError(17, "File exists", os.fspath(path))
        self.missing.discard(rp)
        self.made_dirs.add(rp)
        self.log("mkdir", rp)

    def tree(self):
        """Canonical picture of the simulated file system (for whole-tree comparisons)."""
        from .common import short

        pre = self.cwd.rstrip("/") + "/"

        def rel(p):
            return p[len(pre):] if p.startswith(pre) else p

        return {"files": {rel(k): short(bytes(v), 16) for k, v in sorted(dict.items(self.files))},
                "symlinks": {rel(k): rel(v) for k, v in sorted(self.symlinks.items())}, "dirs": sorted(rel(d) for d in self.made_dirs)}

    def symlink(self, link, target):
        """Register `link` as a symbolic link to the directory or file `target` (the target need not exist)."""
        self.symlinks[self.resolve(link, follow_last=False)] = self.resolve(target)

    def rename(self, src, dst):
        """os.rename / os.replace: moves the directory entry `src` over the entry `dst` (a link at dst is replaced, not followed)."""
        a, b = self.resolve(src, follow_last=False), self.resolve(dst, follow_last=False)
        files = self.files
        if a in self.symlinks:
            tgt = self.symlinks.pop(a)
            if dict.__contains__(files, b):
                dict.__delitem__(files, b)
            self.symlinks[b] = tgt
        elif dict.__contains__(files, a):
            data = dict.pop(files, a)
            self.symlinks.pop(b, None)
            dict.__setitem__(files, b, data)
        else:
            raise FileNotFoundError(2, "No such file or directory", os.fspath(src))
        if not self.parent_exists(dst):
            raise FileNotFoundError(2, "No such file or directory", os.fspath(dst))
        self.versions[b] = self.versions.get(b, 0) + 1

    def unlink(self, path):
        a = self.resolve(path, follow_last=False)
        if a in self.symlinks:
            del self.symlinks[a]
        elif dict.__contains__(self.files, a):
            dict.__delitem__(self.files, a)
        else:
            raise FileNotFoundError(2, "No such file or directory", os.fspath(path))

    # -- logging ---------------------------------------------------------------------------
    def log(self, kind, path, **detail):
        self.seq += 1
        if self.log_events:
            detail["e"] = kind
            detail["p"] = self.resolve(path)
            detail["s"] = self.seq
            self.events.append(detail)

    def yield_point(self, what):
        if self.sched is not None:
            self.sched.seam_point(what)

    # -- files -----------------------------------------------------------------------------
    def put(self, path, data):
        self.files[path] = bytearray(data)

    def get(self, path):
        data = self.files.get(path)
        return None if data is None else bytes(data)

    def events_for(self, path, kinds=None):
        path = self.resolve(path)
        return [e for e in self.events if e["p"] == path and (kinds is None or e["e"] in kinds)]

    def open_handles(self):
        return [h for h in self.handles if not h.sim_closed]

    # -- the seam --------------------------------------------------------------------------
    def open(self, file, mode="r", buffering=-1, encoding=None, errors=None, newline=None, closefd=True, opener=None, **kw):
        flags = None
        if isinstance(file, int):
            if file not in self.fake_fds:
                raise ValueError(f"SimDisk: descriptor {file} does not come from the os.open seam")
            path, flags = self.fake_fds[file]
        else:
            path = os.fspath(file)
            if not isinstance(path, str):
                path = os.fsdecode(path)
        self.yield_point("open")
        binary = "b" in mode
        kind = mode.replace("b", "").replace("t", "").replace("+", "")
        if opener is not None and flags is None:
            # open(name, mode, opener=f): f(name, flags) decides how the file is really opened
            want = {"r": os.O_RDONLY, "w": os.O_WRONLY | os.O_CREAT | os.O_TRUNC, "a": os.O_WRONLY | os.O_CREAT | os.O_APPEND,
                    "x": os.O_WRONLY | os.O_CREAT | os.O_EXCL}[kind] | getattr(os, "O_CLOEXEC", 0)
            fd = opener(path, want)
            if fd not in self.fake_fds:
                raise ValueError("SimDisk: the opener did not go through the os.open seam")
            path, flags = self.fake_fds[fd]
        if kind in ("w", "a", "x"):
            if not self.parent_exists(path):
                self.log("open_w_nodir", path)
                raise FileNotFoundError(2, "No such file or directory", path)
            if self.dir_exists(path) and path not in self.files:
                self.log("open_w_isdir", path)
                raise IsADirectoryError(21, "Is a directory", path)
            excl = kind == "x" if flags is None else bool(flags & os.O_EXCL)
            trunc = kind in ("w", "x") if flags is None else bool(flags & os.O_TRUNC)
            append = kind == "a" if flags is None else bool(flags & os.O_APPEND)
            if excl and path in self.files:
                self.log("open_x_exists", path)
                raise FileExistsError(17, "File exists", path)
            hid = len(self.handles)
            self.log("open_w", path, hid=hid, mode=mode)
            rp_ = self.resolve(path)
            self.versions[rp_] = self.versions.get(rp_, 0) + 1
            if trunc or path not in self.files:
                self.files[path] = bytearray()  # O_TRUNC / O_CREAT at open time, like the real call
            raw = SimRawW(self, path, hid)
            raw.pos = len(self.files[path]) if (append or trunc) else 0  # (without O_TRUNC and O_APPEND: overwrite from the start)
            self.handles.append(raw)
            if binary and buffering == 0:
                return raw  # unbuffered binary: the caller talks to write(2) directly
            bufsize = self.buffer_size if buffering in (-1, None) else buffering
            buffered = io.BufferedWriter(raw, buffer_size=max(1, bufsize))
            if binary:
                return buffered
            text = SimTextW(
                self, path, hid, buffered, encoding=encoding or self.encoding, errors=errors,
                newline=newline,
            )
            if self.chunk_size:
                text._CHUNK_SIZE = self.chunk_size
            return text
        if kind == "r" and binary:
            if path not in self.files:
                self.log("open_r_missing", path)
                raise FileNotFoundError(2, "No such file or directory", path)
            self.log("open_r", path, hid=-1, mode=mode)
            return io.BytesIO(bytes(self.files[path]))
        if mode in ("r", "rt"):
            if path not in self.files:
                self.log("open_r_missing", path)
                raise FileNotFoundError(2, "No such file or directory", path)
            hid = len(self.handles)
            self.log("open_r", path, hid=hid)
            text = SimTextR(
                self, path, hid, bytes(self.files[path]), encoding=encoding or self.encoding,
                errors=errors, newline=newline,
            )
            if self.chunk_size:
                text._CHUNK_SIZE = self.chunk_size
            self.handles.append(text)
            return text
        raise ValueError(f"SimDisk: unsupported mode {mode!r} for {path}")


class Installed:
    """Context manager: route iodata's open() calls to a SimDisk."""

    def __init__(self, disk):
        self.disk = disk

    def __enter__(self):
        import iodata.api
        import iodata.utils

        self._mods = (iodata.utils, iodata.api)
        self._saved = [m.__dict__.get("open", _MISSING) for m in self._mods]
        for m in self._mods:
            m.open = self.disk.open
        self._install_os()
        self._install_warnings()
        return self.disk

    # warnings.catch_warnings saves and restores process-global state (the filter list and the display hook): entering
    # and leaving it are pre-emption points of the scheduler, like the I/O seams (the state is shared by all threads)
    def _install_warnings(self):
        import warnings

        disk = self.disk
        cw = warnings.catch_warnings
        self._cw = (cw.__enter__, cw.__exit__)
        real_enter, real_exit = self._cw

        def __enter__(self_):
            r = real_enter(self_)
            disk.nwarn_ctx = getattr(disk, "nwarn_ctx", 0) + 1
            disk.yield_point("global:warnings.enter")
            return r

        def __exit__(self_, *exc):
            r = real_exit(self_, *exc)
            disk.yield_point("global:warnings.exit")
            return r

        cw.__enter__, cw.__exit__ = __enter__, __exit__
        # delivering a warning reads that state (the C implementation of warnings.warn looks this function up by name)
        self._showmsg = warnings._showwarnmsg
        real_show = self._showmsg

        def _showwarnmsg(msg):
            r = real_show(msg)
            disk.nwarn_shown = getattr(disk, "nwarn_shown", 0) + 1
            disk.yield_point("global:warnings.show")
            return r

        warnings._showwarnmsg = _showwarnmsg

    def _uninstall_warnings(self):
        import warnings

        warnings.catch_warnings.__enter__, warnings.catch_warnings.__exit__ = self._cw
        warnings._showwarnmsg = self._showmsg

    # iodata itself never deletes, renames or probes files, creates directories, opens descriptors or expands
    # wildcards, but a change to it might ("clean up the incomplete output", "create the output directory", "atomic
    # replace"): every such call on a simulated path goes to the simulated file system and is a pre-emption point.
    def _install_os(self):
        import builtins
        import glob
        import stat as stat_mod
        import tokenize

        disk = self.disk
        real = {"remove": os.remove, "unlink": os.unlink, "rename": os.rename, "replace": os.replace,
                "exists": os.path.exists, "isfile": os.path.isfile, "getsize": os.path.getsize,
                "isdir": os.path.isdir, "makedirs": os.makedirs, "mkdir": os.mkdir, "getcwd": os.getcwd,
                "os_open": os.open, "stat": os.stat, "lstat": os.lstat, "islink": os.path.islink, "lexists": os.path.lexists,
                "open": builtins.open, "io_open": io.open, "tok_open": tokenize._builtin_open,
                "glob": glob.glob, "iglob": glob.iglob, "listdir": os.listdir, "chdir": os.chdir, "fstat": os.fstat}
        self._os_real = real
        disk.real_open = real["open"]

        def real_lexists(p):
            # (posixpath.lexists calls os.lstat, which is replaced below)
            try:
                real["lstat"](p)
            except (OSError, ValueError):
                return False
            return True

        def simulated(path):
            if isinstance(path, int):
                return path if path in disk.fake_fds else None
            try:
                p = os.fspath(path)
            except TypeError:
                return None
            if isinstance(p, bytes):
                p = os.fsdecode(p)
            if p in disk.files:
                return p
            # paths that do not exist for real belong to the simulation as well (relative ones, and absolute
            # ones below the working directory, e.g. the result of os.path.abspath on a simulated name)
            if not real_lexists(p) and (not os.path.isabs(p) or p.startswith(disk.cwd.rstrip("/") + "/")):
                return p
            return None

        def point(what):
            disk.yield_point("fs:" + what)

        def remove(path, *a, **kw):
            p = simulated(path)
            if p is None:
                return real["remove"](path, *a, **kw)
            disk.log("unlink", p)
            try:
                disk.unlink(p)
            finally:
                point("unlink")
            return None

        def rename(src, dst, *a, **kw):
            p = simulated(src)
            if p is None:
                return real["rename"](src, dst, *a, **kw)
            q = os.fspath(dst)
            disk.log("rename", p, to=q)
            disk.log("renamed_over", q)
            try:
                disk.rename(p, q)
            finally:
                point("rename")
            return None

        def exists(path):
            p = simulated(path)
            if p is None:
                try:
                    real["stat"](path)
                except (OSError, ValueError):
                    return False
                return True
            r = p in disk.files or disk.dir_exists(p)
            point("exists")
            return r

        def isfile(path):
            p = simulated(path)
            if p is None:
                import stat as _st
                try:
                    return _st.S_ISREG(real["stat"](path).st_mode)
                except (OSError, ValueError):
                    return False
            r = p in disk.files
            point("isfile")
            return r

        def isdir(path):
            p = simulated(path)
            if p is None:
                import stat as _st
                try:
                    return _st.S_ISDIR(real["stat"](path).st_mode)
                except (OSError, ValueError):
                    return False
            r = disk.dir_exists(p)
            point("isdir")
            return r

        def islink(path):
            p = simulated(path)
            if p is None:
                import stat as _st
                try:
                    return _st.S_ISLNK(real["lstat"](path).st_mode)
                except (OSError, ValueError, AttributeError):
                    return False
            return disk.resolve(p, follow_last=False) in disk.symlinks

        def lexists(path):
            p = simulated(path)
            if p is None:
                return real_lexists(path)
            return disk.resolve(p, follow_last=False) in disk.symlinks or p in disk.files or disk.dir_exists(p)

        def getsize(path):
            p = simulated(path)
            if p is None or p not in disk.files:
                return real["stat"](path).st_size
            return len(disk.files[p])

        def makedirs(name, mode=0o777, exist_ok=False):
            p = simulated(name)
            if p is None:
                return real["makedirs"](name, mode, exist_ok)
            try:
                disk.makedirs(p, exist_ok=exist_ok)
            finally:
                point("makedirs")
            return None

        def mkdir(path, mode=0o777, **kw):
            p = simulated(path)
            if p is None:
                return real["mkdir"](path, mode, **kw)
            try:
                disk.mkdir(p)
            finally:
                point("mkdir")
            return None

        def getcwd():
            if disk.cwd_gone:
                raise FileNotFoundError(2, "No such file or directory")
            return disk.cwd

        def chdir(path):
            p = simulated(path)
            if p is None:
                return real["chdir"](path)
            if not disk.dir_exists(p):
                raise FileNotFoundError(2, "No such file or directory", os.fspath(path))
            disk.cwd = disk.resolve(p)
            return None

        def os_open(path, flags, mode=0o777, **kw):
            p = simulated(path)
            if p is None:
                return real["os_open"](path, flags, mode, **kw)
            fd = 10_000_000 + len(disk.fake_fds)
            disk.fake_fds[fd] = (p, flags)
            disk.log("os_open", p, flags=flags)
            return fd

        def _stat(path, follow):
            p = simulated(path)
            if p is None:
                return None
            rp = disk.resolve(p, follow_last=follow)
            ver = disk.versions.get(rp, 0)
            if not follow and rp in disk.symlinks:
                return os.stat_result((stat_mod.S_IFLNK | 0o777, 1, 1, 1, 0, 0, len(disk.symlinks[rp]), ver, ver, ver))
            if dict.__contains__(disk.files, rp):
                return os.stat_result((stat_mod.S_IFREG | 0o644, 2, 1, 1, 0, 0, len(dict.__getitem__(disk.files, rp)), ver, ver, ver))
            if disk.dir_exists(rp):
                return os.stat_result((stat_mod.S_IFDIR | 0o755, 3, 1, 2, 0, 0, 4096, 0, 0, 0))
            raise FileNotFoundError(2, "No such file or directory", os.fspath(path))

        def stat(path, *a, **kw):
            if a or kw.get("dir_fd") is not None:
                return real["stat"](path, *a, **kw)
            r = _stat(path, kw.get("follow_symlinks", True))
            return real["stat"](path, **kw) if r is None else r

        def lstat(path, *a, **kw):
            if a or kw:
                return real["lstat"](path, *a, **kw)
            r = _stat(path, False)
            return real["lstat"](path) if r is None else r

        def any_open(file, mode="r", *a, **kw):
            if simulated(file) is None:
                return real["open"](file, mode, *a, **kw)
            return disk.open(file, mode, *a, **kw)

        def listdir(path="."):
            try:
                p = os.fspath(path)
            except TypeError:
                return real["listdir"](path)
            if isinstance(p, bytes) or (os.path.isabs(p) and not (p + "/").startswith(disk.cwd.rstrip("/") + "/")):
                return real["listdir"](path)
            # a directory of the simulated namespace: what the simulation put there, plus what is there for real
            pre = disk.resolve(p).rstrip("/") + "/"
            names = set()
            for k in list(dict.keys(disk.files)) + list(disk.symlinks) + list(disk.made_dirs):
                if k.startswith(pre):
                    names.add(k[len(pre):].split("/")[0])
            try:
                names.update(real["listdir"](path))
            except OSError:
                if not names and not disk.dir_exists(p):
                    raise
            return sorted(names)

        def sim_glob(pathname, *a, **kw):
            import fnmatch

            pat = os.fspath(pathname)
            if kw.get("root_dir") is not None or kw.get("recursive") or isinstance(pat, bytes):
                return real["glob"](pathname, *a, **kw)
            dirname, base = os.path.split(pat)
            if glob.has_magic(dirname) or os.path.isabs(pat) and not pat.startswith(disk.cwd.rstrip("/") + "/"):
                return real["glob"](pathname, *a, **kw)
            if not glob.has_magic(base):
                return [pat] if lexists(pat) else []
            try:
                names = listdir(dirname or ".")
            except OSError:
                return []
            if not base.startswith("."):
                names = [n for n in names if not n.startswith(".")]
            point("glob")
            return [os.path.join(dirname, n) for n in fnmatch.filter(names, base)]

        def sim_iglob(pathname, *a, **kw):
            return iter(sim_glob(pathname, *a, **kw))

        os.remove = remove
        os.unlink = remove
        os.rename = rename
        os.replace = rename
        os.path.exists = exists
        os.path.isfile = isfile
        os.path.isdir = isdir
        os.path.islink = islink
        os.path.lexists = lexists
        os.path.getsize = getsize
        os.makedirs = makedirs
        os.mkdir = mkdir
        os.getcwd = getcwd
        os.chdir = chdir
        os.open = os_open
        os.stat = stat
        os.lstat = lstat

        def fstat(fd):
            if fd in disk.fake_fds:
                disk.log("fstat", disk.fake_fds[fd][0])
                return _stat(disk.fake_fds[fd][0], True)
            return real["fstat"](fd)

        os.fstat = fstat
        os.listdir = listdir
        builtins.open = any_open
        io.open = any_open
        tokenize._builtin_open = any_open
        glob.glob = sim_glob
        glob.iglob = sim_iglob

    def _uninstall_os(self):
        import builtins
        import glob
        import tokenize

        r = self._os_real
        os.remove, os.unlink, os.rename, os.replace = r["remove"], r["unlink"], r["rename"], r["replace"]
        os.path.exists, os.path.isfile, os.path.getsize = r["exists"], r["isfile"], r["getsize"]
        os.path.isdir, os.path.islink, os.path.lexists = r["isdir"], r["islink"], r["lexists"]
        os.makedirs, os.mkdir, os.getcwd, os.chdir, os.open = r["makedirs"], r["mkdir"], r["getcwd"], r["chdir"], r["os_open"]
        os.stat, os.lstat, os.listdir = r["stat"], r["lstat"], r["listdir"]
        os.fstat = r["fstat"]
        builtins.open, io.open, tokenize._builtin_open = r["open"], r["io_open"], r["tok_open"]
        glob.glob, glob.iglob = r["glob"], r["iglob"]

    def __exit__(self, *exc):
        self._uninstall_os()
        self._uninstall_warnings()
        for m, old in zip(self._mods, self._saved):
            if old is _MISSING:
                try:
                    del m.open
                except AttributeError:
                    pass
            else:
                m.open = old
        return False


_MISSING = object()


# ---------------------------------------------------------------------------------------------
# allocator seam: the content of uninitialised memory


POISON_FILLS = {
    # variant -> (float, int, str-char, bool)
    0: (0.0, 0, "", False),  # what a fresh process usually sees (zero pages)
    1: (float("nan"), -(2 ** 62) + 12345, "Z", True),
    2: (-7.25e77, 77777, "q", True),
    3: (1.0, 1, "1", False),
}


class MemPoison:
    """np.empty / np.empty_like called from iodata code return memory with a chosen content.

    Uninitialised memory holds whatever the process did before: a result that depends on it depends on the
    call history.  The simulator owns that content: the same run under two fill variants must give the same
    result.  Only calls whose caller is a file of the repository's iodata package are affected (numpy and scipy
    bind their own `empty` at import time and are not the subject)."""

    def __init__(self, variant, prefix=None):
        self.variant = variant
        self.prefix = prefix
        self.hits = 0

    def _fill(self, arr):
        f, i, s, b = POISON_FILLS[self.variant]
        k = arr.dtype.kind
        if arr.size == 0:
            return arr
        if k == "f":
            arr[...] = f
        elif k == "c":
            arr[...] = complex(f, f)
        elif k in "iu":
            arr[...] = i if k == "i" else abs(i) % 251
        elif k == "U":
            arr[...] = s * max(1, arr.dtype.itemsize // 4) if s else ""
        elif k == "S":
            arr[...] = (s * arr.dtype.itemsize).encode()
        elif k == "b":
            arr[...] = b
        return arr

    def __enter__(self):
        import sys

        import numpy

        if self.variant is None:
            return self
        if self.prefix is None:
            from . import common

            self.prefix = os.path.join(os.path.realpath(common.REPO), "iodata") + os.sep
        self._real = (numpy.empty, numpy.empty_like)
        real_empty, real_like = self._real
        me = self

        def empty(*a, **kw):
            arr = real_empty(*a, **kw)
            if sys._getframe(1).f_code.co_filename.startswith(me.prefix):
                me.hits += 1
                me._fill(arr)
            return arr

        def empty_like(*a, **kw):
            arr = real_like(*a, **kw)
            if sys._getframe(1).f_code.co_filename.startswith(me.prefix):
                me.hits += 1
                me._fill(arr)
            return arr

        numpy.empty, numpy.empty_like = empty, empty_like
        return self

    def __exit__(self, *exc):
        import numpy

        if self.variant is not None:
            numpy.empty, numpy.empty_like = self._real
        return False


# ---------------------------------------------------------------------------------------------
# clock seam


class SimClock:
    """The wall clock of a run.  time.time / time_ns / localtime / gmtime / ctime / strftime (without explicit time) and
    datetime.date.today / datetime.datetime.now / utcnow / today (through module attributes of `datetime`) report the
    simulated instant.  `datetime.date.today()` of the real C type follows as well, because it asks time.time(); a
    `datetime.datetime.now()` bound with `from datetime import datetime` before the seam was installed does not
    (documented limit)."""

    def __init__(self, epoch):
        self.epoch = epoch

    def __enter__(self):
        import datetime
        import time

        if self.epoch is None:
            return self
        ep = float(self.epoch)
        self._real = {n: getattr(time, n) for n in ("time", "time_ns", "localtime", "gmtime", "ctime", "strftime", "asctime")}
        real = self._real
        self._dt = (datetime.date, datetime.datetime)
        real_date, real_datetime = self._dt

        time.time = lambda: ep
        time.time_ns = lambda: int(ep * 1e9)
        time.localtime = lambda secs=None: real["localtime"](ep if secs is None else secs)
        time.gmtime = lambda secs=None: real["gmtime"](ep if secs is None else secs)
        time.ctime = lambda secs=None: real["ctime"](ep if secs is None else secs)
        time.asctime = lambda t=None: real["asctime"](real["localtime"](ep) if t is None else t)
        time.strftime = lambda fmt, t=None: real["strftime"](fmt, real["localtime"](ep) if t is None else t)

        class SimDate(real_date):
            @classmethod
            def today(cls):
                return cls.fromtimestamp(ep)

        class SimDateTime(real_datetime):
            @classmethod
            def now(cls, tz=None):
                return cls.fromtimestamp(ep, tz)

            @classmethod
            def today(cls):
                return cls.fromtimestamp(ep)

            @classmethod
            def utcnow(cls):
                return cls.fromtimestamp(ep, datetime.timezone.utc).replace(tzinfo=None)

        datetime.date, datetime.datetime = SimDate, SimDateTime
        return self

    def __exit__(self, *exc):
        import datetime
        import time

        if self.epoch is not None:
            for n, f in self._real.items():
                setattr(time, n, f)
            datetime.date, datetime.datetime = self._dt
        return False
