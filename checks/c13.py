"""C13 - trajectories keep every frame, in order, each identical to a single load.

Producer/consumer histories over dump_many / load_many on SimDisk: instrumented iterables,
recorded event log, crash prefixes at every line boundary, single numeric-field corruption.
"""

import copy
import warnings

from checks import c07, c08
from sim import canon, common, faults, gen, seams
from sim import shrink as shr
from sim.common import Stats

ID = "C13"
LEVEL = "fault_enumeration"
DEFAULT_SEED = 1313
BATCH = 1
TASK_TIMEOUT = 1200
WALL_CAP = {"quick": 100, "thorough": 2400}
RULE = (
    "A task is one trajectory source: (A) a seeded frame sequence (1..50 frames, varying atom counts, titles, "
    "bonds, charges) written by dump_many to SimDisk from a list / generator / iterator object / generator that "
    "raises at frame j, or (B) a corpus trajectory of one of the 7 load_many formats. The write history (pull and "
    "write events) is checked for lazy exactly-once in-order consumption; then the file is read back uncut "
    "(round trip vs per-frame dump_one+load_one and vs load_one on each frame's own lines), cut at every line "
    "boundary (thorough; seeded sample in quick) and with single numeric fields replaced by garbage tokens. "
    "One evaluation = one load_many/dump_many execution. Non-trivial = a cut/corruption was applied or the "
    "producer raised; distinct = (format, source hash, fault)."
)
ASSUMPTIONS = [
    "a frame is 'complete' in a prefix when the prefix holds all lines the uncut parse had consumed when it yielded that frame (LineIterator.lineno at yield time)",
    "a frame yielded from a cut file that is digest-equal to the uncut frame lost nothing and needs no warning",
    "only garbage (non-numeric) tokens are used for the malformed-frame clause; a changed but numeric field is a different valid file",
    "FCHK trajectories are not compared with load_one (different attribute set by design)",
]
COMPONENTS = {
    "real": ["iodata.api.dump_many/load_many/dump_one/load_one", "xyz/extxyz/pdb/mol2/sdf/gromacs/fchk parsers and writers",
             "io.TextIOWrapper/BufferedWriter"],
    "stub": ["file system (SimDisk)", "producer iterable (TrackedFrames)", "consumer of the generator", "crash = line-boundary prefix"],
}

CORPUS = [
    ("water_trajectory.xyz", None), ("dataset_blanklines.xyz", None), ("water.xyz", None), ("al_fcc.xyz", None),
    ("water_extended_trajectory.xyz", "extxyz"), ("water_trajectory.pdb", None), ("water_trajectory_no_model.pdb", None),
    ("water_single.pdb", None), ("water_single_no_end.pdb", None), ("ch5plus.pdb", None), ("indomethacin-dimer.pdb", None),
    ("2luv.pdb", None), ("caffeine.mol2", None), ("water.mol2", None), ("benzene.mol2", None), ("silioh3.mol2", None),
    ("example.sdf", None), ("formamide.sdf", None), ("water2.gro", None), ("water.gro", None),
    ("h2o_sto3g.fchk", None), ("peroxide_opt.fchk", None), ("peroxide_tsopt.fchk", None),
    ("peroxide_relaxed_scan.fchk", None), ("peroxide_irc.fchk", None),
]
CONCAT_FORMATS = {"xyz", "extxyz", "pdb", "mol2", "sdf", "gromacs"}
FNAMES = {"xyz": "t.xyz", "sdf": "t.sdf", "mol2": "t.mol2", "pdb": "t.pdb"}


def setup_worker():
    c07.setup_worker()


# ------------------------------------------------------------------------------------------------


def _v(cls, msg, trace, extra=""):
    src = trace["source"]
    fmt = src.get("fmt") or c07.natural_fmt(src.get("file") or src.get("name") or "")
    sig = f"{cls}|{fmt}|{extra}"
    return {"cls": cls, "sig": sig, "msg": msg, "trace": copy.deepcopy(trace)}


def write_source(src, stats=None):
    """Run dump_many for a generated source; returns (rec, violations-of-the-write-history)."""
    w = {"op": "dump_many", "fmt": src["fmt"], "select": "explicit", "filename": src["filename"], "objs": src["objs"],
         "iter_kind": src["iter_kind"], "raise_at": src.get("raise_at"), "allow_changes": False, "defect": None,
         "target_pre": None, "knobs": src.get("knobs", {})}
    rec = c08.run_once(w, [])
    return w, rec


def judge_write(trace, w, rec):
    out = []
    src = trace["source"]
    n = len(src["objs"])
    raise_at = src.get("raise_at") if src["iter_kind"] == "gen_raise" else None
    exc = rec["exc"]
    et = type(exc).__name__ if exc is not None else None
    evs = rec["disk"].events
    tracker = rec["tracker"]
    if rec["handles_open"]:
        out.append(_v("handle_leak", "output file still open after dump_many", trace))
    if raise_at is None:
        if exc is not None:
            out.append(_v("spurious_error", f"dump_many of valid frames failed: {et}: {c07._s(exc)}", trace, et))
            return out
    else:
        if exc is None:
            out.append(_v("swallowed", f"producer failure at frame {raise_at} was swallowed", trace))
        elif et not in ("DumpError", "CallerFault"):
            out.append(_v("wrong_exception", f"producer failure surfaced as {et}", trace, et))
    # exactly once, in order, lazily
    iters_ = [e for e in evs if e["e"] == "iter"]
    pulls = [e for e in evs if e["e"] == "pull"]
    if tracker is not None and tracker.n_iter != 1:
        out.append(_v("not_once", f"iterable iterated {tracker.n_iter} times", trace))
    expect = list(range(n if raise_at is None else min(n, raise_at)))
    got = [e["i"] for e in pulls]
    if got != expect:
        out.append(_v("not_once", f"frames pulled {got[:12]}..., expected {expect[:12]}...", trace))
    # laziness: between pull(i-1) and pull(i) (i >= 1) at least one text write must have happened,
    # i.e. never more than one frame pulled-but-unwritten
    seqs = {e["i"]: e["s"] for e in pulls}
    tw = [e["s"] for e in evs if e["e"] == "twrite"]
    for i in range(1, len(got)):
        a, b = seqs.get(i - 1), seqs.get(i)
        if a is None or b is None:
            continue
        if not any(a < s < b for s in tw):
            out.append(_v("not_lazy", f"frame {i} was pulled before frame {i - 1} had been written", trace))
            break
    if raise_at is None and tracker is not None and not tracker.finished:
        out.append(_v("not_exhausted", "dump_many returned before the iterable was exhausted", trace))
    return out


def load_uncut(name, fmt, data, budget=None):
    endl = []
    rec = c07.run_load(name, fmt, "load_many", data, ("exhaust", 0), None, budget, endlines=endl)
    rec["endlines"] = endl
    rec["digests"] = [canon.iodata_digest(d) for d in rec["frames"]]
    return rec


def numeric_fields_differ(a, b):
    """True when two frames differ in numeric content (arrays / scalars of numbers), as opposed to text."""
    import attrs
    import numpy as np

    def num_items(obj, prefix=""):
        out = {}
        for f in attrs.fields(type(obj)):
            v = getattr(obj, f.name)
            items = v.items() if isinstance(v, dict) else [("", v)]
            for k, x in items:
                if isinstance(x, np.ndarray) and x.dtype.kind in "fiu":
                    out[f"{f.name}.{k}"] = x
                elif isinstance(x, (int, float)) and not isinstance(x, bool):
                    out[f"{f.name}.{k}"] = np.array(x)
        return out

    na, nb = num_items(a), num_items(b)
    for k in set(na) | set(nb):
        if k not in na or k not in nb or na[k].shape != nb[k].shape or not np.array_equal(na[k], nb[k], equal_nan=True):
            return True
    return False


def perturbed_token(tok):
    """A different, still valid number of the same style as the given numeric token (or None)."""
    try:
        if tok.strip().lstrip("+-").isdigit():
            return str(int(tok) + 1)
        val = float(tok)
    except ValueError:
        return None
    dec = len(tok.split(".")[1].rstrip("eEdD+-0123456789")) if "." in tok and "e" not in tok.lower() else None
    if dec is not None:
        dec = len(tok.split(".")[1])
        return f"{val + 0.5:.{dec}f}"
    return repr(val + 0.5)


def run_lockstep(name, fmt, data_a, data_b, budget):
    """Two load_many iterators alive at once in one thread, advanced in turn (as zip() would).  Returns the
    frames / exception / own LoadWarnings of the second one."""
    import iodata

    from sim.sched import Steps

    disk = seams.SimDisk(log_events=False)
    pa, pb = "a/" + name, "b/" + name
    disk.put(pa, data_a)
    disk.put(pb, data_b)
    frames_b, exc_b = [], None
    with seams.Installed(disk), warnings.catch_warnings(record=True) as wl, Steps(budget) as st:
        warnings.simplefilter("always")
        ga, gb = iodata.load_many(pa, fmt=fmt), iodata.load_many(pb, fmt=fmt)
        done_a = done_b = False
        while not (done_a and done_b):
            if not done_a:
                try:
                    next(ga)
                except StopIteration:
                    done_a = True
                except Exception:  # noqa: BLE001
                    done_a = True
            if not done_b:
                try:
                    frames_b.append(next(gb))
                except StopIteration:
                    done_b = True
                except Exception as exc:  # noqa: BLE001
                    exc_b = exc
                    done_b = True
        ga = gb = None
    warned_b = any(type(x.message).__name__ == "LoadWarning" and pb in str(x.message) for x in wl)
    return {"frames": frames_b, "exc": exc_b, "warned": warned_b, "handles_open": len(disk.open_handles()), "steps": st.steps}


def _generic(trace7, rec):
    """C07's items 1-4 on this load (termination, exception types, file name, handles)."""
    out = []
    for v in c07.judge(trace7, rec):
        if v["cls"] in ("shape_cross",):
            continue
        out.append(v)
    return out


def source_data(src):
    """(name, fmt, bytes, write-violations) for a source."""
    if src["kind"] == "corpus":
        return src["file"], src.get("fmt"), common.corpus_bytes(src["file"]), None, None
    if src["kind"] == "text":
        return src["name"], src.get("fmt"), src["text"].encode(), None, None
    w, rec = write_source(src)
    return src["filename"], src["fmt"], rec["bytes"] or b"", w, rec


def check_source(trace, stats=None, cuts=None, corruptions=None):
    """Full evaluation of one source; trace['fault'] selects a single fault for replay."""
    out = []
    src = trace["source"]
    name, fmt, data0, w, wrec = source_data(src)
    n_eval = 0
    modname = fmt or c07.natural_fmt(name)
    if wrec is not None:
        n_eval += 1
        out.extend(judge_write(trace, w, wrec))
        if stats is not None:
            stats.inc(f"outcome.write_{type(wrec['exc']).__name__ if wrec['exc'] else 'ok'}")
            if src["iter_kind"] == "gen_raise":
                stats.inc("fault.iter_raise")
            stats.inc("steps", wrec["steps"])
    base = load_uncut(name, fmt, data0)
    n_eval += 1
    t7 = {"source": {"kind": "corpus", "file": src.get("file", name)}, "name": name, "fmt": fmt, "api": "load_many"}
    nlines_total = len(data0.splitlines())
    budget = max(20 * base["steps"], 2_000_000)
    if stats is not None:
        stats.inc("steps", base["steps"])
    # ---- round trip ---------------------------------------------------------------------------
    F, E = base["digests"], base["endlines"]
    if wrec is not None:
        raise_at = src.get("raise_at") if src["iter_kind"] == "gen_raise" else None
        nexp = len(src["objs"]) if raise_at is None else min(len(src["objs"]), raise_at)
        if base["exc"] is not None:
            out.append(_v("reload_failed", f"file written by dump_many does not load: {c07._s(base['exc'])}", trace))
        elif len(F) != nexp:
            out.append(_v("frame_count", f"{nexp} frames written, {len(F)} frames read back", trace))
        else:
            # per-frame save and reload
            import iodata

            for i in range(nexp):
                obj = gen.build(src["objs"][i])
                disk = seams.SimDisk(log_events=False)
                try:
                    with seams.Installed(disk), warnings.catch_warnings():
                        warnings.simplefilter("ignore")
                        iodata.dump_one(obj, name, fmt=fmt)
                        one = iodata.load_one(name, fmt=fmt)
                    n_eval += 2
                except Exception as exc:  # noqa: BLE001
                    out.append(_v("single_roundtrip_failed", f"frame {i}: dump_one/load_one failed: {c07._s(exc)}", trace))
                    break
                if canon.iodata_digest(one) != F[i]:
                    d = canon.diff(canon.iodata_canon(one), canon.iodata_canon(base["frames"][i]))
                    out.append(_v("frame_differs", f"frame {i} from load_many differs from its per-frame save and reload: {d[:3]}", trace))
                    break
    elif base["exc"] is not None and type(base["exc"]).__name__ != "LoadError":
        out.extend(_generic(t7, base))
    # each frame equals load_one on that frame's own lines (concatenation formats)
    if modname in CONCAT_FORMATS and base["exc"] is None and len(E) == len(F):
        import iodata

        lines = data0.splitlines(keepends=True)
        prev = 0
        for i, e in enumerate(E):
            if e is None:
                break
            chunk = b"".join(lines[prev:e])
            prev = e
            disk = seams.SimDisk(log_events=False)
            disk.put(name, chunk)
            canon.clear_function_caches()  # "as a single-frame file would load": with cold caches
            try:
                with seams.Installed(disk), warnings.catch_warnings():
                    warnings.simplefilter("ignore")
                    one = iodata.load_one(name, fmt=fmt)
                n_eval += 1
            except Exception as exc:  # noqa: BLE001
                out.append(_v("frame_not_single_loadable", f"frame {i} (lines {prev}) does not load on its own: {c07._s(exc)}", trace))
                break
            if canon.iodata_digest(one) != F[i]:
                d = canon.diff(canon.iodata_canon(one), canon.iodata_canon(base["frames"][i]))
                out.append(_v("frame_differs", f"frame {i} from load_many differs from load_one of its own lines: {d[:3]}", trace))
                break
    if base["exc"] is not None:
        return out, n_eval
    N = len(F)
    lines = data0.splitlines(keepends=True)
    offs = [0]
    for l in lines:
        offs.append(offs[-1] + len(l))

    # ---- crash prefixes -------------------------------------------------------------------------
    def do_cut(ncut, nbytes=0):
        """Cut after `ncut` complete lines plus `nbytes` bytes of the next line (a cut inside a line)."""
        nonlocal n_eval
        if nbytes < 0:
            # a cut between two tokens of the line (a cut inside a number only shortens the number: undetectable by any
            # reader).  Only for the XYZ family, whose atom lines have no optional fields: in MOL2, SDF, PDB and GRO the
            # tail of a record is optional or ignored, so a shortened record is a different valid record.
            import re as _re

            if modname not in ("xyz", "extxyz"):
                return []

            toks = list(_re.finditer(rb"\S+", lines[ncut])) if ncut < len(lines) else []
            if len(toks) < 2:
                return []
            nbytes = toks[min(-nbytes, len(toks) - 1) - 1].end()
        tr = {**trace, "fault": {"kind": "crash_prefix", "line": ncut, "bytes": nbytes}}
        data = data0[: min(len(data0), offs[ncut] + nbytes)]
        endl = []
        # (the cut file is read with another content of uninitialised memory than the uncut one: frames that were
        # pre-allocated for more data than arrived must not differ from the frames of the uncut file)
        rec = c07.run_load(name, fmt, "load_many", data, ("exhaust", 0), {"mem": 1 + ncut % 3, "short_read": (None, 1, 5, 61)[ncut % 4]}, budget, endlines=endl)
        n_eval += 1
        vs = []
        for v in _generic({**t7, "faults": [{"kind": "crash_prefix", "n": offs[ncut]}]}, rec):
            vs.append(_v(v["cls"], v["msg"], tr, "cut"))
        Y = [canon.iodata_digest(d) for d in rec["frames"]]
        complete = sum(1 for e in E if e is not None and e <= ncut)
        exc = rec["exc"]
        # "without a warning": any LoadWarning emitted during this load counts as accompaniment
        # (sound, if weak for files whose intact load already warns, e.g. guessed PDB elements).
        warned = "LoadWarning" in rec["warnings"]
        if len(Y) < complete:
            vs.append(_v("frame_lost", f"cut after line {ncut}: {complete} complete frames in the prefix but only {len(Y)} yielded ({type(exc).__name__ if exc else 'no error'})", tr, "cut"))
        if len(Y) > N:
            vs.append(_v("frame_invented", f"cut after line {ncut}: {len(Y)} frames yielded, the whole file has {N}", tr, "cut"))
        partial = 0
        for i, y in enumerate(Y[:N]):
            if y == F[i]:
                continue
            if i < complete:
                vs.append(_v("frame_differs", f"cut after line {ncut}: complete frame {i} differs from the uncut run", tr, "cut"))
                break
            partial += 1
            if not (warned or exc is not None):
                vs.append(_v("silent_partial_frame", f"cut after line {ncut} (inside frame {i}, which ends at line {E[i]}): a partial frame was yielded without warning or error", tr, "cut"))
                break
        if partial > 1:
            vs.append(_v("many_partial_frames", f"cut after line {ncut}: {partial} partial frames yielded", tr, "cut"))
        if ncut % 4 == 1 or trace.get("fault"):
            # the same cut file read in lock-step with a second, intact trajectory: nothing may change for it
            ls = run_lockstep(name, fmt, data0, data, budget)
            n_eval += 1
            Yl = [canon.iodata_digest(d) for d in ls["frames"]]
            solo_warned = any(w_.startswith("LoadWarning") for w_ in rec["warning_msgs"])
            if Yl != Y or type(ls["exc"]) is not type(exc) or ls["warned"] != solo_warned:
                vs.append(_v("lockstep_differs", f"cut after line {ncut}: read alone -> {len(Y)} frames, {type(exc).__name__ if exc else 'no error'}, "
                             f"LoadWarning={solo_warned}; read in lock-step with another load_many iterator -> {len(Yl)} frames, "
                             f"{type(ls['exc']).__name__ if ls['exc'] else 'no error'}, LoadWarning={ls['warned']}", tr, "cut"))
            if ls["handles_open"]:
                vs.append(_v("handle_leak", f"cut after line {ncut}: file(s) left open after two interleaved iterators finished", tr, "lockstep"))
            if stats is not None:
                stats.inc("probe.lockstep_runs")
        if stats is not None:
            stats.inc("fault.crash_prefix")
            if ncut % 4:
                stats.inc("fault.short_read")
                stats.inc("short_read_calls", rec.get("short_reads", 0))
            stats.inc("steps", rec["steps"])
            stats.inc(f"outcome.cut_{type(exc).__name__ if exc else 'ok'}")
            if len(Y) > complete:
                stats.inc("probe.item_beyond_complete_frames")
            if exc is not None and Y:
                stats.inc("probe.error_after_frames_yielded")
            if ncut not in E and ncut < nlines_total:
                stats.inc("probe.cut_inside_frame")
            stats.add("nontrivial", common.short(repr((modname, common.sha(data0), "cut", ncut))))
        return vs

    # ---- single field corruption -----------------------------------------------------------------
    def do_corrupt(f):
        nonlocal n_eval
        tr = {**trace, "fault": f}
        data = faults.apply(data0, f)
        if data == data0:
            return []
        rec = c07.run_load(name, fmt, "load_many", data, ("exhaust", 0), None, budget)
        n_eval += 1
        vs = []
        for v in _generic({**t7, "faults": [f]}, rec):
            vs.append(_v(v["cls"], v["msg"], tr, "field"))
        Y = [canon.iodata_digest(d) for d in rec["frames"]]
        exc = rec["exc"]
        line = f["line"]
        m = next((i for i, e in enumerate(E) if e is not None and line < e), None)
        if m is None:
            return vs  # trailing material after the last frame
        if m < N and modname in ("xyz", "pdb", "sdf", "mol2", "gromacs"):
            # (formats with typed, positional numeric fields; extended XYZ key=value data are typed dynamically)
            # Was the field ignored by the parser, or is it a number the parser reads?  Replace it by another valid
            # number: if the frame's numeric content follows, the field is parsed as a number and garbage in it is a
            # malformed frame, which must raise LoadError instead of being tolerated.
            ls_ = data0.splitlines(keepends=True)
            toks = list(faults.NUM_RE.finditer(ls_[line])) if line < len(ls_) else []
            if toks:
                tk = toks[min(f["tok"], len(toks) - 1)]
                orig = ls_[line][tk.start():tk.end()].decode("latin-1")
                new_tok = perturbed_token(ls_[line][tk.start():tk.end()].decode("ascii", "replace"))
                if new_tok is not None:
                    # the garbage must sit exactly where the number sat (fixed-column formats), and a tolerated field
                    # that is announced by a LoadWarning (e.g. an unknown MOL2 bond type) is fine
                    width = tk.end() - tk.start()
                    cands = [{**f, "token": ("x" + "#" * (width - 1)), "keep_width": True}]
                    if width >= 3:
                        # second kind of garbage: the number with one inner character replaced by a byte that is not
                        # valid UTF-8 (bit rot); a reader that drops undecodable bytes would silently read another number
                        cands.append({**f, "token": orig[:1] + "\xff" + orig[2:], "keep_width": True, "latin1": True})
                    tolerated = None
                    for exact in cands:
                        grec = c07.run_load(name, fmt, "load_many", faults.apply(data0, exact), ("exhaust", 0), None, budget)
                        n_eval += 1
                        if grec["exc"] is None and len(grec["frames"]) == N and "LoadWarning" not in grec["warnings"]:
                            tolerated = exact
                            break
                    if tolerated is not None:
                        pdata = faults.apply(data0, {**f, "token": new_tok, "keep_width": True})
                        prec = c07.run_load(name, fmt, "load_many", pdata, ("exhaust", 0), None, budget)
                        n_eval += 1
                        if prec["exc"] is None and len(prec["frames"]) == N and numeric_fields_differ(prec["frames"][m], base["frames"][m]):
                            if stats is not None:
                                stats.inc("probe.numeric_field_sensitivity_established")
                            vs.append(_v("garbage_in_numeric_field_tolerated", f"frame {m}, line {line + 1}: the field is parsed as a number "
                                         f"(changing it to {new_tok} changes the frame's numbers) but garbage of the same width in its place ({tolerated['token']!r}) was accepted without LoadError or LoadWarning", {**trace, "fault": tolerated}, "field"))
        if exc is None:
            if len(Y) < N:
                vs.append(_v("silent_end", f"garbage token in frame {m} (line {line + 1}): sequence ended silently after {len(Y)} of {N} frames", tr, "field"))
            for i, y in enumerate(Y[:N]):
                if i != m and y != F[i]:
                    vs.append(_v("frame_differs", f"garbage token in frame {m}: frame {i} changed", tr, "field"))
                    break
        else:
            if len(Y) < m:
                vs.append(_v("frame_lost", f"garbage token in frame {m}: error after only {len(Y)} frames", tr, "field"))
            for i, y in enumerate(Y[:m]):
                if y != F[i]:
                    vs.append(_v("frame_differs", f"garbage token in frame {m}: earlier frame {i} changed", tr, "field"))
                    break
        if stats is not None:
            stats.inc("fault.field_overwrite")
            stats.inc("steps", rec["steps"])
            stats.inc(f"outcome.field_{type(exc).__name__ if exc else 'ok'}")
            if exc is not None and len(Y) == m:
                stats.inc("probe.loaderror_exactly_at_malformed_frame")
            stats.add("nontrivial", common.short(repr((modname, common.sha(data0), "field", f["line"], f["tok"], f["token"]))))
        return vs

    # ---- other damage to a single line: its tail lost, an integer (count, index) changed ----------
    def do_damage(f):
        nonlocal n_eval
        tr = {**trace, "fault": f}
        data = faults.apply(data0, f)
        if data == data0:
            return []
        first = next((i for i, (a, b) in enumerate(zip(data, data0)) if a != b), min(len(data), len(data0)))
        line = data0.count(b"\n", 0, first)
        m = next((i for i, e in enumerate(E) if e is not None and line < e), None)
        if m is None:
            return []
        if f["kind"] == "int_nudge" and line < len(lines) and b"Number of geometries" in lines[line]:
            # the length of the list of optimisation / IRC paths: a file that announces fewer paths *is* a file with fewer
            # paths (like a trajectory cut at a frame boundary); the per-point block sizes are the subject
            return []
        rec = c07.run_load(name, fmt, "load_many", data, ("exhaust", 0), None, budget)
        n_eval += 1
        vs = []
        for v in _generic({**t7, "faults": [f]}, rec):
            vs.append(_v(v["cls"], v["msg"], tr, f["kind"]))
        Y = [canon.iodata_digest(d) for d in rec["frames"]]
        exc = rec["exc"]
        warned = "LoadWarning" in rec["warnings"]
        what = "the tail of a line lost" if f["kind"] == "token_drop" else "an integer field changed"
        if exc is None and not warned:
            # (damage to the last frame may make it swallow the rest of the file: that is a file cut inside its last
            # frame, which may end silently as long as no partial frame is yielded; frames *after* the damaged one
            # must not disappear silently, nor frames before it)
            if len(Y) < N and (m < N - 1 or len(Y) < m):
                vs.append(_v("silent_end", f"{what} in frame {m} (line {line + 1}): only {len(Y)} of {N} frames yielded, without LoadError or LoadWarning", tr, f["kind"]))
            elif f["kind"] == "token_drop" and modname == "xyz" and not name.endswith(".extxyz"):
                # plain XYZ is the one format whose atom lines have no optional fields: "symbol x y z", all required
                # (title lines are free text; in MOL2, SDF, PDB and GRO the tail of an atom line is optional or ignored)
                start = 0 if m == 0 else E[m - 1]
                if line - start >= 2:
                    for i, y in enumerate(Y[:N]):
                        if y != F[i]:
                            vs.append(_v("incomplete_line_accepted", f"{what} in frame {m} (line {line + 1}): frame {i} was yielded with other content, without LoadError or LoadWarning", tr, f["kind"]))
                            break
        elif exc is not None:
            if len(Y) < m:
                vs.append(_v("frame_lost", f"{what} in frame {m}: error after only {len(Y)} frames", tr, f["kind"]))
            for i, y in enumerate(Y[:m]):
                if y != F[i]:
                    vs.append(_v("frame_differs", f"{what} in frame {m}: earlier frame {i} changed", tr, f["kind"]))
                    break
        if stats is not None:
            stats.inc(f"fault.{f['kind']}")
            stats.inc("steps", rec["steps"])
            stats.inc(f"outcome.{f['kind']}_{type(exc).__name__ if exc else ('warned' if warned else 'ok')}")
        return vs

    fault = trace.get("fault")
    if fault is not None:
        if fault["kind"] == "crash_prefix":
            out.extend(do_cut(min(fault["line"], len(lines)), fault.get("bytes", 0)))
        elif fault["kind"] in ("token_drop", "int_nudge"):
            out.extend(do_damage(fault))
        else:
            out.extend(do_corrupt(fault))
        return out, n_eval
    for ncut in cuts(len(lines)) if cuts else []:
        if isinstance(ncut, tuple):
            out.extend(do_cut(*ncut))
        else:
            out.extend(do_cut(ncut))
    for f in corruptions(data0) if corruptions else []:
        if f["kind"] in ("token_drop", "int_nudge"):
            out.extend(do_damage(f))
        else:
            out.extend(do_corrupt(f))
    return out, n_eval


def execute(trace):
    return check_source(trace)[0]


# ------------------------------------------------------------------------------------------------


SYMS = ["H", "C", "N", "O", "F", "Na", "Cl", "Fe"]


def gen_text_source(rng):
    """A foreign writer's trajectory for the read-only formats: extended XYZ (optionally with identical title
    lines and per-atom extra columns) and GROMACS."""
    nframes = rng.choice([1, 2, 3, 3, 5, 8])
    if rng.random() < 0.6:
        same_title = rng.random() < 0.5
        extra_col = rng.random() < 0.7
        lines = []
        for i in range(nframes):
            natom = rng.randint(1, 5)
            props = "species:S:1:pos:R:3" + (":q:R:1" if extra_col else "") + (":Z:I:1" if rng.random() < 0.2 and not extra_col else "")
            title = f'Properties={props} energy={-1.5 if same_title else round(rng.uniform(-9, -1), 4)} pbc="F F F"'
            if not same_title and rng.random() < 0.5:
                title += f" step={i}"
            lines.append(str(natom))
            lines.append(title)
            for _a in range(natom):
                sym = rng.choice(SYMS)
                row = f"{sym} {rng.uniform(-5, 5):.5f} {rng.uniform(-5, 5):.5f} {rng.uniform(-5, 5):.5f}"
                if extra_col:
                    row += f" {rng.uniform(-1, 1):.4f}"
                if ":Z:I:1" in props:
                    row += " 1"
                lines.append(row)
        return {"kind": "text", "name": "g.extxyz", "fmt": None, "text": "\n".join(lines) + "\n"}
    lines = []
    for i in range(nframes):
        natom = rng.randint(1, 5)
        lines.append(f"generated frame, t= {i * 0.5:.3f}" if rng.random() < 0.7 else "generated frame")
        lines.append(f"{natom:5d}")
        for a in range(natom):
            x, y, z = (rng.uniform(0, 3) for _ in range(3))
            vx, vy, vz = (rng.uniform(-1, 1) for _ in range(3))
            lines.append(f"{1:5d}{'SOL':<5s}{rng.choice(['OW', 'HW1', 'HW2']):>5s}{a + 1:5d}{x:8.3f}{y:8.3f}{z:8.3f}{vx:8.4f}{vy:8.4f}{vz:8.4f}")
        lines.append(f"{3.0:10.5f}{3.0:10.5f}{3.0:10.5f}")
    return {"kind": "text", "name": "g.gro", "fmt": None, "text": "\n".join(lines) + "\n"}


def gen_source(rng, tier):
    if rng.random() < 0.22:
        return gen_text_source(rng)
    fmt = rng.choice(sorted(FNAMES))
    n = rng.choice([1, 1, 2, 2, 3, 3, 4, 5, 8, 13, 50] if tier == "thorough" else [1, 2, 2, 3, 3, 4, 5, 8, 21])
    kind = rng.choice(["list", "gen", "iterobj", "gen_raise", "gen_fresh", "gen_fresh", "gen_reuse", "gen_reentrant"])
    same_natom = rng.randint(2, 6) if (kind == "gen_reuse" or rng.random() < 0.3) else None
    objs = [gen.random_mol(rng, natom=same_natom, with_bonds=fmt in ("sdf", "mol2", "pdb") and rng.random() < 0.8,
                           with_charges=fmt == "mol2", pdb=fmt == "pdb", title=rng.random() < 0.8 or kind == "gen_reuse")
            for _ in range(n)]
    src = {"kind": "dumped_many", "fmt": fmt, "filename": FNAMES[fmt], "objs": objs, "iter_kind": kind,
           "knobs": {"buffer_size": rng.choice([1, 64, 8192]), "chunk_size": rng.choice([None, 64])}}
    if kind == "gen_raise":
        src["raise_at"] = rng.randint(1, n)
    return src


def plan(tier, seed, args):
    tasks = []
    run = 0
    if args.only != "gen":
        for f, fmt in CORPUS:
            tasks.append({"run": run, "seed": seed, "tier": tier, "mode": "corpus", "file": f, "fmt": fmt})
            run += 1
    if args.only != "corpus":
        n = args.runs or (260 if tier == "quick" else 2400)
        for _ in range(n):
            tasks.append({"run": run, "seed": seed, "tier": tier, "mode": "gen"})
            run += 1
    return tasks


def run_task(task):
    rng = common.rng_for(task["seed"], ID, task["run"])
    tier = task["tier"]
    stats = Stats()
    if task["mode"] == "corpus":
        src = {"kind": "corpus", "file": task["file"], "fmt": task["fmt"]}
    else:
        src = gen_source(rng, tier)
    trace = {"source": src, "fault": None}

    brng = common.rng_for(task["seed"], ID, task["run"], "bytecuts")

    def cuts(nl):
        if tier == "thorough" or nl <= 40:
            base_ = list(range(nl + 1))
        else:
            k = 30 if task["mode"] == "corpus" else 16
            base_ = sorted(set(rng.sample(range(nl + 1), k)) | {0, nl})
        # cuts inside a line (a writer that died in the middle of a record): the last lines of the file and a few others
        inner = []
        for ln in sorted(set([max(0, nl - 1), max(0, nl - 2)] + [brng.randrange(max(1, nl)) for _ in range(6 if tier == "thorough" else 2)])):
            for _ in range(4 if tier == "thorough" else 2):
                inner.append((ln, -brng.randint(1, 6)))  # negative: "after that many complete tokens of the line" (resolved in do_cut)
        return base_ + inner

    def corruptions(data0):
        nls = faults.numeric_lines(data0)
        out = []
        if not nls:
            return out
        k = (40 if task["mode"] == "corpus" else 12) if tier == "thorough" else 5
        for _ in range(k):
            out.append({"kind": "field_overwrite", "line": rng.choice(nls), "tok": rng.randrange(5),
                        "token": rng.choice(faults.GARBAGE_TOKENS), "keep_width": rng.random() < 0.5})
        for _ in range(max(2, k // 2)):
            out.append(faults.random_fault(brng, data0, "token_drop"))
            out.append(faults.random_fault(brng, data0, "int_nudge"))
        if b"each geome" in data0:
            # formatted checkpoint trajectories announce the size of every per-point block: each of them loses one of q equal
            # parts (one point of q): frames must not disappear without LoadError or LoadWarning
            for blk in range(3):
                for q in (2, 3, 4, 5, 6, 7):
                    out.append({"kind": "int_nudge", "i": blk, "how": f"drop1of{q}", "aim": "traj_count"})
        return out

    viols, n = check_source(trace, stats, cuts, corruptions)
    if src["kind"] == "dumped_many" and src["iter_kind"] == "gen_raise":
        stats.add("nontrivial", common.short(repr(("raise", common.jdump(src)))))
    dig = common.short(repr([(v["cls"], v["msg"]) for v in viols]) + repr(sorted(stats.c.items())))
    sample = None
    if task["run"] % 17 == 0:
        sample = {"source": src.get("file") or {k: (v if k not in ("objs", "text") else (f"{len(v)} generated frames" if k == "objs" else v[:200])) for k, v in src.items()},
                  "evaluations": n, "counters": {k: v for k, v in stats.c.items() if not k.startswith("steps")}}
    return {"n": n, "digest": dig, "violations": viols, "stats": stats.export(), "sample": sample}


def shrink(trace, still_fails):
    t = copy.deepcopy(trace)
    src = t["source"]
    if src["kind"] == "dumped_many" and len(src["objs"]) > 1 and src["iter_kind"] != "gen_raise":
        def test(objs):
            return still_fails({**t, "source": {**src, "objs": objs}})
        objs = shr.ddmin_list(src["objs"], test, min_len=1)
        t["source"] = {**src, "objs": objs}
        src = t["source"]
    if src["kind"] == "dumped_many":
        t2 = copy.deepcopy(t)
        t2["source"]["knobs"] = {}
        if still_fails(t2):
            t = t2
    f = t.get("fault")
    if f and f["kind"] == "crash_prefix" and f["line"] > 0:
        def test3(n):
            return still_fails({**t, "fault": {"kind": "crash_prefix", "line": n}})
        t["fault"] = {"kind": "crash_prefix", "line": shr.shrink_int(f["line"], test3)}
    return t


def coverage_extra(stats, tier):
    return {
        "fault_kinds_configured": ["crash_prefix (every line boundary)", "field_overwrite (garbage token)", "iter_raise (producer fails at frame j)"],
        "simulated_time": "logical steps (LINE events inside iodata)",
    }
