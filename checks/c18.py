"""C18 - the command-line converter does exactly what the API does.

Differential under identical fault plans: the same concrete workload (input crash state, options,
output write faults) is executed (A) through the API, (B) through iodata.__main__.main() in-process
with sys.argv patched and (C, sampled) as a real `python -m iodata` subprocess whose seams are
installed by sim/sitehook/sitecustomize.py.
"""

import base64
import copy
import io
import json
import os
import shutil
import subprocess
import sys
import tempfile
import warnings
from contextlib import redirect_stderr, redirect_stdout

import numpy as np

from checks import c07, c08
from sim import canon, common, faults, gen, sched, seams
from sim import shrink as shr
from sim.common import Stats

ID = "C18"
LEVEL = "exploration"
DEFAULT_SEED = 1818
BATCH = 4
TASK_TIMEOUT = 900
WALL_CAP = {"quick": 100, "thorough": 2400}
RULE = (
    "One workload = (input file from the corpus or written by iodata; input state intact / crash prefix / storage "
    "fault; output name; -i/-o given or inferred; -c; -m; output disk healthy / write fault at text write k / raw "
    "write k / close fault; target absent or pre-existing). It is executed on identical SimDisk plans through the "
    "API, through main() in-process and (sampled) as a real subprocess; one evaluation = one such execution. "
    "Non-trivial = an input or output fault was applied (and fired, for write faults); distinct = (input hash, "
    "options, fault plan)."
)
ASSUMPTIONS = [
    "an uncaught exception leaving main() in-process corresponds to exit status 1 with a traceback on stderr",
    "the CLI may fail where the API succeeds only because of its floating-point trapping, and must then name the error",
    "the fault-free (input, option) space is only sampled; it serves as the baseline of the faulted comparison",
]
COMPONENTS = {
    "real": ["iodata.__main__ (parse_args, convert, main)", "iodata.api", "parsers/writers", "a real `python -m iodata` interpreter (sampled)"],
    "stub": ["file system (SimDisk) in all three executions", "sys.argv", "sitecustomize seam installer for the subprocess"],
}

# (input corpus file, infmt needed, [output names])
PAIRS = [
    ("water.xyz", None, ["o.sdf", "o.mol2", "o.pdb", "o.xyz", "o.fchk", "o.json", "o.gro", "o.unknown"]),
    ("water_trajectory.xyz", None, ["o.xyz", "o.pdb", "o.sdf", "o.mol2"]),
    ("water_trajectory.pdb", None, ["o.xyz", "o.pdb", "o.sdf"]),
    ("example.sdf", None, ["o.xyz", "o.sdf", "o.mol2"]),
    ("caffeine.mol2", None, ["o.xyz", "o.mol2", "o.sdf", "o.pdb"]),
    ("water2.gro", None, ["o.xyz"]),
    ("h2o_sto3g.fchk", None, ["o.molden", "o.mkl", "o.wfn", "o.wfx", "o.fchk", "o.xyz", "o.json"]),
    ("ch3_hf_sto3g.fchk", None, ["o.molden", "o.wfn", "o.wfx", "o.fchk"]),
    ("water_ccpvdz_pure_hf_g03.fchk", None, ["o.molden", "o.wfn", "o.fchk", "o.mkl"]),
    ("peroxide_opt.fchk", None, ["o.xyz", "o.fchk"]),
    ("h2o.molden.input", None, ["o.fchk", "o.wfn", "o.molden", "o.mkl"]),
    ("h2_sto3g.mkl", None, ["o.molden", "o.mkl", "o.fchk"]),
    ("h2o_sto3g.wfn", None, ["o.wfn", "o.wfx", "o.molden", "o.fchk"]),
    ("lih_cation_uhf.wfx", None, ["o.wfx", "o.wfn", "o.fchk"]),
    ("he2_ghost_psi4_1.0.molden", None, ["o.wfx", "o.xyz", "o.molden"]),
    ("cubegen_h2o_5points.cube", None, ["o.cube", "o.xyz", "POSCAR_o"]),
    ("POSCAR.water", None, ["POSCAR_o", "o.xyz", "o.cube"]),
    ("FCIDUMP.psi4.h2", None, ["o.fcidump", "o.xyz"]),
    ("CuSCN_molecule.json", "json_qcschema", ["o.json", "o.xyz"]),
    ("LiCl_STO4G_Gaussian_input.json", "json_qcschema", ["o.json", "o.xyz"]),
    ("water.gro", None, ["o.xyz", "o.pdb"]),
    ("water_sto3g_hf_g03.log", None, ["o.xyz"]),
    ("water.com", None, ["o.xyz", "o.sdf"]),
]
OUTFMT = {"o.json": "json_qcschema"}


def _custom_json():
    mol = json.loads(common.corpus_bytes("CuSCN_molecule.json"))
    for k, v in (("zzz_custom", 1), ("aaa_custom", [1, 2]), ("mmm_custom", {"b": 1, "a": 2}), ("kkk_custom", "x"), ("ddd_custom", 2.5)):
        mol[k] = v
    return json.dumps(mol, indent=1)


def inline_inputs():
    """Generated inputs (a foreign writer's files that are not in the corpus)."""
    return {
        "custom_keys.json": _custom_json(),
        "species.extxyz": "2\nProperties=species:S:1:pos:R:3 pbc=\"F F F\"\nH 0.0 0.0 0.0\nF 0.0 0.0 0.9\n",
        "labels.extxyz": "3\nProperties=Z:I:1:species:S:1:pos:R:3 pbc=\"F F F\"\n6 CA 0.0 0.0 0.0\n8 O 0.0 0.0 1.2\n1 H 0.9 0.0 -0.5\n",
        # inputs whose arithmetic overflows or divides by zero: the CLI traps floating-point errors, the API does not - the
        # CLI may fail where the API succeeds (and says so), it must not succeed with other content
        "CHGCAR.flat": "flat cell\n   1.0\n 1.0 0.0 0.0\n 2.0 0.0 0.0\n 0.0 0.0 1.0\n   H\n   1\nDirect\n 0.0 0.0 0.0\n\n 1 1 1\n 1.0\n",
        "far.xyz": "2\nfar away\nH 1.0e308 0.0 0.0\nH 0.0 0.0 0.7\n",
    }


INLINE_PAIRS = [("custom_keys.json", "json_qcschema", ["o.json", "o.xyz"]), ("species.extxyz", None, ["o.xyz", "o.sdf"]),
                ("labels.extxyz", None, ["o.xyz", "o.pdb", "o.sdf"]), ("CHGCAR.flat", None, ["o.cube", "o.xyz"]),
                ("far.xyz", None, ["o.sdf", "o.xyz", "o.pdb"])]
_GUARD = None
import signal as _sig

_OLD_SIGPIPE = _sig.getsignal(_sig.SIGPIPE)
PRE = b"PRE-EXISTING TARGET\nsecond line\n"


def setup_worker():
    global _GUARD
    import iodata.__main__  # noqa: F401

    sched.MONITOR.install(common.REPO)
    warnings.simplefilter("ignore")
    _GUARD = canon.TableGuard()


def _argv(w):
    a = ["iodata-convert"]
    if w.get("infmt") is not None:
        a += ["-i", w["infmt"]]
    if w.get("outfmt") is not None:
        a += ["-o", w["outfmt"]]
    if w.get("allow_changes"):
        a += ["-c"]
    if w.get("many"):
        a += ["-m"]
    a += [w["input_name"], w["output_name"]]
    return a


def raw_input(name):
    inl = inline_inputs()
    return inl[name].encode() if name in inl else common.corpus_bytes(name)


def input_bytes(w):
    return faults.apply_all(raw_input(w["input_file"]), w.get("input_faults", []))


def run_prelude(w):
    """Earlier conversions in the same interpreter (the history of the process): executed before the in-process
    executions only - a fresh `python -m iodata` has no history, and the results must agree nevertheless."""
    from iodata.__main__ import convert

    w.setdefault("_keepalive", [])
    for k, pre in enumerate(w.get("prelude") or []):
        disk = seams.SimDisk(log_events=False)
        disk.put(pre["input_name"], raw_input(pre["input_file"]))
        if pre.get("suspend"):
            # a frame iterator that was started earlier and is still alive while the measured conversion runs
            import iodata

            with seams.Installed(disk), warnings.catch_warnings():
                warnings.simplefilter("ignore")
                try:
                    it = iodata.load_many(pre["input_name"], fmt=pre.get("infmt"))
                    next(it)
                    w["_keepalive"].append((it, disk))
                except Exception:  # noqa: BLE001
                    pass
            continue
        with seams.Installed(disk), warnings.catch_warnings():
            warnings.simplefilter("ignore")
            try:
                convert(pre["input_name"], pre["output_name"], many=pre.get("many", False), infmt=pre.get("infmt"))
            except Exception:  # noqa: BLE001
                pass


def make_disk(w, data):
    knobs = w.get("knobs", {})
    disk = seams.SimDisk(buffer_size=knobs.get("buffer_size", 8192), chunk_size=knobs.get("chunk_size"))
    for link, target in (w.get("symlinks") or {}).items():
        disk.symlink(link, target)
    for link, target in (w.get("file_symlinks") or {}).items():
        disk.symlink(link, target)  # (the output name is a symbolic link to a file, which may not exist yet)
    if not w.get("input_missing"):
        disk.put(w["input_name"], data)
    for nname, nfile in (w.get("neighbours") or {}).items():
        disk.put(nname, raw_input(nfile))  # other files next to the input (names that a wildcard would match)
    if w.get("target_pre"):
        disk.put(w["output_name"], PRE)
    disk.plans[w["output_name"]] = seams.WritePlan.from_faults(w.get("output_faults"))
    disk.out_key = disk.resolve(w["output_name"])  # (the name may stop being a link during the run)
    return disk


def _outcome(disk, w, status, err, exc=None):
    import gc

    if exc is not None:
        # the traceback keeps the suspended load_many generator (and its input file) alive
        exc.__traceback__ = None
        if exc.__cause__ is not None:
            exc.__cause__.__traceback__ = None
        if exc.__context__ is not None:
            exc.__context__.__traceback__ = None
    gc.collect()
    return {"status": status, "stderr": err, "exc": exc, "bytes": disk.get(w["output_name"]), "tree": disk.tree(),
            "opened_w": len([e for e in disk.events if e["p"] == disk.out_key and e["e"] == "open_w"]),
            "fired": list(dict.__getitem__(disk.plans, disk.out_key).fired), "handles": len(disk.open_handles())}


def _s(exc):
    """str(exc), also for an exception whose own __str__ raises (then the interpreter prints a placeholder)."""
    try:
        return str(exc)
    except Exception:  # noqa: BLE001
        return "<exception str() failed>"


def run_api(w, data):
    import iodata

    disk = make_disk(w, data)
    exc = None
    with seams.Installed(disk), seams.MemPoison(0), warnings.catch_warnings():
        warnings.simplefilter("ignore")
        try:
            if w.get("many"):
                iodata.dump_many(iodata.load_many(w["input_name"], fmt=w.get("infmt")), w["output_name"],
                                 allow_changes=bool(w.get("allow_changes")), fmt=w.get("outfmt"))
            else:
                iodata.dump_one(iodata.load_one(w["input_name"], fmt=w.get("infmt")), w["output_name"],
                                allow_changes=bool(w.get("allow_changes")), fmt=w.get("outfmt"))
        except Exception as e:  # noqa: BLE001
            exc = e
    return _outcome(disk, w, 0 if exc is None else 1, "" if exc is None else f"{type(exc).__name__}: {_s(exc)}", exc)


def run_main(w, data):
    from iodata.__main__ import main

    disk = make_disk(w, data)
    old_argv = sys.argv
    old_err = np.geterr()
    status, exc = 0, None
    err = io.StringIO()
    out = io.StringIO()
    sys.argv = _argv(w)
    try:
        with seams.Installed(disk), seams.MemPoison(w.get("mem")), warnings.catch_warnings(), redirect_stderr(err), redirect_stdout(out):
            warnings.simplefilter("ignore")
            try:
                main()
            except SystemExit as e:
                status = e.code if isinstance(e.code, int) else (0 if e.code is None else 1)
            except Exception as e:  # noqa: BLE001 - the interpreter would print it and exit 1
                status, exc = 1, e
    finally:
        sys.argv = old_argv
        np.seterr(**old_err)
        import signal as _signal

        if _signal.getsignal(_signal.SIGPIPE) is not _OLD_SIGPIPE:
            _signal.signal(_signal.SIGPIPE, _OLD_SIGPIPE)  # (a CLI may change it for its own process; the worker goes on)
    text = err.getvalue()
    stdout_text = out.getvalue()
    if exc is not None:
        try:
            text += f"{type(exc).__name__}: {exc}"
        except Exception:  # noqa: BLE001 - what the interpreter prints when str() of the exception raises
            text += f"{type(exc).__name__}: <exception str() failed>"
    o_ = _outcome(disk, w, status, text, exc)
    o_["stdout"] = stdout_text
    return o_


def run_subprocess(w, data):
    tmp = tempfile.mkdtemp(prefix="c18-")
    try:
        files = {} if w.get("input_missing") else {w["input_name"]: base64.b64encode(data).decode()}
        for nname, nfile in (w.get("neighbours") or {}).items():
            files[nname] = base64.b64encode(raw_input(nfile)).decode()
        if w.get("target_pre"):
            files[w["output_name"]] = base64.b64encode(PRE).decode()
        plan = {"verif": common.VERIF, "files": files, "plans": {w["output_name"]: w.get("output_faults") or []},
                "knobs": {**w.get("knobs", {}), "mem": w.get("mem")}, "result": os.path.join(tmp, "result.json"), "symlinks": w.get("symlinks") or {},
                "report": [w["output_name"], w["input_name"]], "file_symlinks": w.get("file_symlinks") or {}}
        with open(os.path.join(tmp, "plan.json"), "w") as fh:
            json.dump(plan, fh)
        env = {k: v for k, v in os.environ.items() if not k.startswith("VERIF_")}
        env["IODATA_VERIF_SIM"] = os.path.join(tmp, "plan.json")
        env["PYTHONPATH"] = os.pathsep.join([os.path.join(common.VERIF, "sim", "sitehook"), common.REPO])
        env["PYTHONDONTWRITEBYTECODE"] = "1"
        env["PYTHONWARNINGS"] = "ignore"
        env["PYTHONHASHSEED"] = str(w.get("hashseed", 0))  # a user's interpreter has an arbitrary string-hash seed
        cp = subprocess.run([sys.executable, "-m", "iodata", *_argv(w)[1:]], capture_output=True, text=True, env=env,
                            cwd=tmp, timeout=300)
        res = None
        if os.path.exists(plan["result"]):
            with open(plan["result"]) as fh:
                res = json.load(fh)
        if res is None and cp.returncode < 0:
            # the process was killed by a signal (no exit handlers ran): status and message are what there is to judge
            return {"status": cp.returncode, "stderr": cp.stderr[-20000:], "exc": None, "bytes": None, "tree": None, "opened_w": 0,
                    "fired": [], "handles": 0, "killed_by_signal": -cp.returncode}
        if res is None:
            return {"status": cp.returncode, "stderr": cp.stderr[-20000:], "bytes": None, "harness": "no result file"}
        okey = res["resolved"][w["output_name"]]
        b = res["files"].get(okey)
        cwd_ = res["cwd"].rstrip("/") + "/"

        def rel(p_):
            return p_[len(cwd_):] if p_.startswith(cwd_) else p_  # (the subprocess has its own working directory)

        tree = {"files": {rel(k): common.short(base64.b64decode(v), 16) for k, v in sorted(res["files"].items()) if rel(k) not in ("plan.json", "result.json")},
                "symlinks": {rel(k): rel(v) for k, v in sorted(res.get("symlinks", {}).items())}, "dirs": sorted(rel(d) for d in res.get("made_dirs", []))}
        # (the whole chained traceback: the first exception of the chain names the floating-point trap of the CLI)
        return {"status": cp.returncode, "stderr": cp.stderr[-20000:], "exc": None, "tree": tree, "stdout": cp.stdout,
                "bytes": None if b is None else base64.b64decode(b),
                "opened_w": sum(1 for e, p in res["events"] if e == "open_w" and p == okey),
                "fired": [tuple(x) for x in res["fired"].get(okey, [])], "handles": 0}
    finally:
        shutil.rmtree(tmp, ignore_errors=True)


def _v(cls, msg, w, extra=""):
    trace = copy.deepcopy({k: v for k, v in w.items() if not k.startswith("_")})
    return {"cls": cls, "sig": f"{cls}|{extra}", "msg": msg + f" [argv: {' '.join(_argv(w)[1:])}]", "trace": trace}


def compare(w, api, other, label):
    """Oracle: `other` (main() or subprocess) against the API under the same plan."""
    out = []
    pre = PRE if w.get("target_pre") else None
    ok_api = api["exc"] is None
    et = type(api["exc"]).__name__ if api["exc"] is not None else None
    if other.get("harness"):
        raise RuntimeError(f"HARNESS: {label}: {other['harness']}: {other['stderr']}")
    if other["status"] == 0:
        if other.get("stdout"):
            # standard output may be the output file (/dev/stdout, a pipe): anything the converter prints there ends up in the data
            out.append(_v("stdout_not_empty", f"{label} exits 0 and printed on standard output: {other['stdout'][:80]!r}", w, label))
        bad_fired = [f for f in other.get("fired") or [] if f[0] != "raw_short_write"]
        if bad_fired:
            out.append(_v("success_despite_write_fault", f"{label} exits 0 although the output disk reported {bad_fired}", w, label))
        if not ok_api:
            out.append(_v("success_reported_but_api_fails", f"{label} exits 0 but the API calls raise {et}: {_s(api['exc'])}", w, f"{label}/{et}"))
        elif other["bytes"] != api["bytes"]:
            out.append(_v("different_content", f"{label} exits 0 but wrote different bytes than the API "
                          f"({None if other['bytes'] is None else len(other['bytes'])} vs {None if api['bytes'] is None else len(api['bytes'])})", w, label))
        elif other.get("tree") is not None and api.get("tree") is not None and other["tree"] != api["tree"]:
            # the same bytes under the output name, but not the same file system: other files written or left behind, a
            # symbolic link replaced instead of written through, directories created
            diff = []
            for part in ("files", "symlinks", "dirs"):
                a_, b_ = api["tree"][part], other["tree"][part]
                if a_ != b_:
                    ka = set(a_) if isinstance(a_, dict) else set(a_)
                    kb = set(b_) if isinstance(b_, dict) else set(b_)
                    diff.append(f"{part}: only API {sorted(ka - kb)[:3]}, only {label} {sorted(kb - ka)[:3]}, differing "
                                f"{sorted(k for k in ka & kb if isinstance(a_, dict) and a_[k] != b_[k])[:3]}")
            out.append(_v("different_file_system_state", f"{label} exits 0 and the output reads the same, but the file system differs from what the API calls leave: {'; '.join(diff)}", w, label))
    else:
        if not other["stderr"].strip():
            out.append(_v("silent_failure", f"{label} exits {other['status']} without any message"
                          + (f" (killed by signal {other['killed_by_signal']})" if other.get("killed_by_signal") else ""), w, label))
            return out
        elif not ok_api and not any(os.path.basename(n_) in other["stderr"] for n_ in (w["input_name"], w["output_name"])):
            # "an error naming the problem": every error of the library names the file it is about
            out.append(_v("error_names_no_file", f"{label} exits {other['status']} but its message names neither the input nor the output file: "
                          f"{other['stderr'].strip()[-200:]}", w, label))
        if ok_api:
            # allowed only for the floating-point trapping of the CLI, and it must say so
            if "FloatingPointError" not in other["stderr"] and "floating" not in other["stderr"].lower() and \
                    not (other.get("exc") is not None and isinstance(getattr(other["exc"], "__cause__", None), FloatingPointError)):
                out.append(_v("cli_fails_api_succeeds", f"{label} exits {other['status']} ({other['stderr'].strip()[-160:]}) but the API calls succeed", w, label))
        # both fail: the CLI may fail earlier than the API (floating-point trapping while loading), so
        # only "non-zero status and a message" is required, not the same exception type.
    if et in ("PrepareDumpError", "FileFormatError") or (et == "LoadError" and not w.get("many")):
        # pre-flight rejection: an existing output file stays untouched (and none is created)
        if other["bytes"] != pre or other.get("opened_w"):
            out.append(_v("target_touched_on_preflight_error", f"{label}: output {'changed' if pre else 'created'} although the conversion was rejected pre-flight ({et})", w, f"{label}/{et}"))
    # (open handles are not judged here: the process exits, and in-process the traceback of a failed -m run keeps
    # the suspended load_many generator alive; closing of files is C07's and C08's subject)
    return out


def execute(w, with_subprocess=None):
    try:
        return _execute(w, with_subprocess)
    finally:
        w.pop("_keepalive", None)


def _execute(w, with_subprocess=None):
    if _GUARD is not None and _GUARD.changed():
        _GUARD.restore()  # every run starts from the pristine module state (determinism across workers)
    data = input_bytes(w)
    run_prelude(w)
    api = run_api(w, data)
    out = []
    # Short writes are legal and must lose nothing: under such a plan "the file the API calls would write"
    # is the complete, fault-free output.
    faults_ = w.get("output_faults") or []
    if faults_ and all(f["kind"] == "raw_short_write" for f in faults_) and api["exc"] is None:
        free = run_api({**w, "output_faults": None}, data)
        if free["exc"] is None and free["bytes"] != api["bytes"]:
            out.append(_v("partial_content_reported_as_success", f"API: short writes on the output lost data "
                          f"({len(api['bytes'] or b'')} of {len(free['bytes'] or b'')} bytes) without an error", w, "api"))
            api = {**api, "bytes": free["bytes"]}
    pre = PRE if w.get("target_pre") else None
    et = type(api["exc"]).__name__ if api["exc"] is not None else None
    if et in ("PrepareDumpError", "FileFormatError") and (api["bytes"] != pre or api["opened_w"]):
        out.append(_v("target_touched_on_preflight_error", f"API: output touched although {et}", w, f"api/{et}"))
    m = run_main(w, data)
    out.extend(compare(w, api, m, "main()"))
    if with_subprocess if with_subprocess is not None else w.get("subprocess"):
        s = run_subprocess(w, data)
        out.extend(compare(w, api, s, "subprocess"))
        if (s["status"] == 0) != (m["status"] == 0) or (s["status"] == 0 and s["bytes"] != m["bytes"]):
            out.append(_v("main_vs_subprocess", f"in-process main() (status {m['status']}) and the real subprocess (status {s['status']}) disagree", w))
    return out


def gen_workload(rng, tier):
    f, infmt, outs = rng.choice(PAIRS) if rng.random() < 0.88 else rng.choice(INLINE_PAIRS)
    outn = rng.choice(outs)
    w = {"input_file": f, "input_name": f, "output_name": outn, "infmt": infmt, "outfmt": OUTFMT.get(outn),
         "allow_changes": rng.random() < 0.4, "many": False, "target_pre": rng.random() < 0.5,
         "input_faults": [], "output_faults": None,
         "knobs": {"buffer_size": rng.choice([1, 64, 8192, 8192]), "chunk_size": rng.choice([None, None, 256])}}
    from iodata.api import FORMAT_MODULES

    mod = c07.natural_fmt(f)
    if rng.random() < (0.6 if f in dict((p_[0], 1) for p_ in INLINE_PAIRS) else 0.33):
        # what the interpreter did before: one or two unrelated conversions
        w["prelude"] = []
        same = [pr for pr in PAIRS + INLINE_PAIRS if c07.natural_fmt(pr[0]) == mod and pr[0] != f]
        for _ in range(rng.choice([1, 1, 2])):
            # often a file of the same format (shared parser state is the likeliest channel between conversions)
            pf, pfmt, pouts = rng.choice(same) if same and rng.random() < 0.6 else rng.choice(PAIRS + INLINE_PAIRS)
            w["prelude"].append({"input_file": pf, "input_name": pf, "output_name": rng.choice(pouts), "infmt": pfmt})
            if hasattr(FORMAT_MODULES.get(c07.natural_fmt(pf)), "load_many") and rng.random() < 0.6:
                w["prelude"][-1]["suspend"] = True
    if hasattr(FORMAT_MODULES[mod], "load_many") and rng.random() < 0.5:
        w["many"] = True
    elif not hasattr(FORMAT_MODULES[mod], "load_many") and rng.random() < 0.12:
        w["many"] = True  # -m with a format that has no load_many: the API raises FileFormatError before anything is opened
    if infmt is None and rng.random() < 0.25:
        w["infmt"] = mod  # explicit although inferable
    elif infmt is None and rng.random() < 0.04:
        w["infmt"] = ""  # an option given with an empty value (-i "$FMT" with FMT unset): the API rejects the empty format name
    if w["outfmt"] is None and rng.random() < 0.25:
        om = c07.natural_fmt(outn)
        w["outfmt"] = om if om and rng.random() < 0.85 else rng.choice(["nosuchformat", "gromacs", "xyz", ""])
    if rng.random() < 0.15:
        # names that select nothing: -o (and -i) carry the format
        om = c07.natural_fmt(outn)
        if om:
            w["output_name"], w["outfmt"] = rng.choice(["result.txt", "out", "o.dat2"]), om
        if rng.random() < 0.5:
            w["input_name"], w["infmt"] = rng.choice(["input.txt", "in"]), w["infmt"] or mod
    r = rng.random()
    if r < 0.2:
        # directory components (patterns must be matched against the base name only)
        d = rng.choice(["sub", "POSCAR.d", "my.FCIDUMP.runs", "x.cube", "a/b", "CHGCAR_old", "traj.xyz"])
        if rng.random() < 0.5:
            w["output_name"] = d + "/" + w["output_name"]
        else:
            w["input_name"] = d + "/" + w["input_name"]
    elif r < 0.26:
        # a symbolic link to a directory elsewhere: "link/.." is the parent of the link's *target*
        w["symlinks"] = {"lnk": "deep/er/dir"}
        if rng.random() < 0.5:
            w["input_name"] = "lnk/../" + w["input_name"]
        else:
            w["output_name"] = "lnk/../" + w["output_name"]
    elif r < 0.32:
        # names in which one pattern is a prefix/suffix of another
        w["output_name"] = rng.choice(["POSCAR.xyz", "out.xyz.fchk", "FCIDUMP.xyz", "CHGCAR.cube", "x.molden.input.xyz"])
        w["outfmt"] = None
    if rng.random() < 0.05:
        w["input_name"] = rng.choice(["in.unknown", "in.xyz", "in.fchk"])
    r = rng.random()
    if r < 0.06 and "/" not in w["input_name"]:
        # a file name with wildcard characters, next to a file that the pattern would match (the name is literal)
        stem, dot, ext = w["input_name"].rpartition(".")
        if dot:
            w["input_name"] = f"{stem}[1].{ext}" if rng.random() < 0.7 else f"{stem}?.{ext}"
            other_f = rng.choice([p_[0] for p_ in PAIRS if p_[0] != f and p_[0].endswith("." + ext)] or [f])
            w["neighbours"] = {f"{stem}1.{ext}": other_f}
    elif r < 0.12 and "/" not in w["output_name"]:
        # the output name is a symbolic link to a file elsewhere (existing or not): writing goes through the link
        w["file_symlinks"] = {w["output_name"]: "store/real_" + w["output_name"]}
        w["target_pre"] = False
    if rng.random() < 0.05:
        # a file read as the wrong format: the loaders quote what they found instead (here: text full of braces)
        w["input_file"] = rng.choice(["CuSCN_molecule.json", "LiCl_STO4G_Gaussian_input.json", "Hydroxyl_radical_molecule.json"])
        w["input_name"] = rng.choice(["x.json", "in.dat", w["input_file"]])
        w["infmt"] = rng.choice(["fcidump", "wfn", "molden", "mol2", "wfx", "fchk"])
        w["many"] = False
        w.pop("neighbours", None)
    if rng.random() < 0.04:
        w["input_missing"] = True  # the operating system refuses to open the input: the API raises its OSError
    r = rng.random()
    data0 = raw_input(w["input_file"])
    if r < 0.35:
        w["input_faults"] = [faults.random_fault(rng, data0, "crash_prefix")]
    elif r < 0.55:
        w["input_faults"] = [faults.random_fault(rng, data0, rng.choice(["field_overwrite", "bitflip", "line_del", "line_dup", "lost_block", "torn_tail"]))]
    r = rng.random()
    if r < 0.2:
        w["output_faults"] = [{"kind": "text_write_fail", "k": rng.randint(0, 80), "errno": rng.choice(c08.ERRS)}]
    elif r < 0.3:
        w["output_faults"] = [{"kind": "raw_write_fail", "k": rng.randint(0, 4), "errno": rng.choice(c08.ERRS)}]
    elif r < 0.38:
        w["output_faults"] = [{"kind": "close_fail", "errno": rng.choice(c08.ERRS)}]
    elif r < 0.45:
        w["output_faults"] = [{"kind": "raw_short_write", "k": rng.randint(0, 2), "n": rng.choice([1, 5, 50])}]
    elif r < 0.55:
        w["output_faults"] = [{"kind": "disk_full", "capacity": rng.choice([0, 7, 80, 500, 3000, 9000])}]
    return w


def plan(tier, seed, args):
    n = args.runs or (1500 if tier == "quick" else 40000)
    nsub = 48 if tier == "quick" else 1600
    every = max(1, n // nsub)
    return [{"run": i, "seed": seed, "tier": tier, "subprocess": i % every == 0} for i in range(n)]


def run_task(task):
    rng = common.rng_for(task["seed"], ID, task["run"])
    stats = Stats()
    w = gen_workload(rng, task["tier"])
    # real subprocesses for the regular sample, and more often where the fresh interpreter matters most:
    # QCSchema files (set iteration, hash seed) and runs with a history
    w["subprocess"] = bool(task["subprocess"]) or ((w["input_file"].endswith(".json") or bool(w.get("prelude"))) and rng.random() < 0.3)
    w["hashseed"] = rng.choice([1, 7, 4242, 99991, 31337])
    # content of uninitialised memory in the CLI runs (allocator seam; the API run sees zeros): own PRNG stream
    w["mem"] = common.rng_for(task["seed"], ID, task["run"], "mem").choice([None, 1, 2, 3])
    data = input_bytes(w)
    api = run_api(w, data)
    viols = execute(w)
    n = 3 if w["subprocess"] else 2
    et = type(api["exc"]).__name__ if api["exc"] is not None else "ok"
    stats.inc(f"outcome.api_{et}")
    for f in w["input_faults"]:
        stats.inc(f"fault.input_{f['kind']}")
    for kind, _k in api["fired"]:
        stats.inc(f"fault.output_{kind}")
    for feat in ("prelude", "neighbours", "file_symlinks", "symlinks", "input_missing", "many", "allow_changes", "target_pre"):
        if w.get(feat):
            stats.inc("probe.workload_" + feat)
    if any(p_.get("suspend") for p_ in w.get("prelude") or []):
        stats.inc("probe.workload_suspended_iterator")
    if w["input_file"].endswith(".json") and w.get("infmt") not in (None, "json_qcschema"):
        stats.inc("probe.workload_wrong_format_quoting_braces")
    if w["subprocess"]:
        stats.inc("probe.subprocess_runs")
    if w["many"]:
        stats.inc("probe.many")
    if w["target_pre"] and et in ("PrepareDumpError", "FileFormatError", "LoadError"):
        stats.inc("probe.preflight_rejection_with_existing_target")
    if w["input_faults"] or api["fired"]:
        stats.add("nontrivial", common.short(common.jdump(w)))
    dig = common.short(common.jdump(w) + et + common.short(api["bytes"] or b"") + repr([(v["cls"]) for v in viols]))
    sample = None
    if task["run"] % 61 == 0 or (w["subprocess"] and task["run"] % 4 == 0):
        sample = {"argv": _argv(w)[1:], "input_faults": w["input_faults"], "output_faults": w["output_faults"],
                  "target_pre_existing": w["target_pre"], "api_outcome": et, "executed": ["api", "main()"] + (["subprocess"] if w["subprocess"] else [])}
    return {"n": n, "digest": dig, "violations": viols, "stats": stats.export(), "sample": sample}


def shrink(trace, still_fails):
    t = copy.deepcopy(trace)
    t["subprocess"] = False if still_fails({**t, "subprocess": False}) else t.get("subprocess")
    for key, val in (("input_faults", []), ("output_faults", None), ("target_pre", False), ("knobs", {}), ("allow_changes", False)):
        if t.get(key) != val:
            t2 = {**t, key: val}
            if still_fails(t2):
                t = t2
    return t


def coverage_extra(stats, tier):
    return {
        "fault_kinds_configured": ["input crash_prefix", "input storage faults (field_overwrite, bitflip, line_del, line_dup, lost_block, torn_tail)",
                                   "output text_write_fail", "output raw_write_fail", "output close_fail", "output raw_short_write", "output disk_full (persistent)", "pre-existing target"],
        "simulated_time": "not measured here (step clock not armed); one evaluation = one conversion",
    }
