"""C08 - dump failures follow the error contract; pre-flight errors spare existing files.

Fault enumeration at the write seam: for every workload (valid object x format x selection x
target state x defect) the fault-free execution is recorded first; then a fault is injected at
every text-level write k, every raw write k and at close (thorough) or at a seeded sample (quick).
"""

import copy
import warnings

from sim import canon, common, gen, iters, seams
from sim import shrink as shr
from sim.common import Stats
from sim.sched import Steps, StepBudgetExceeded, WallBudgetExceeded, WallGuard

ID = "C08"
LEVEL = "fault_enumeration"
DEFAULT_SEED = 8008
BATCH = 1
TASK_TIMEOUT = 900
WALL_CAP = {"quick": 100, "thorough": 2400}
RULE = (
    "One evaluation = one API call (dump_one / dump_many / write_input) executed against SimDisk under one "
    "concrete plan (defect, format selection, target state, iterable kind, write-side fault). Workloads are a "
    "fixed table (format x corpus/generated object) plus seeded variations; for each workload the fault-free "
    "run is recorded and a fault is then placed at every text write k, every raw write k and at close "
    "(thorough) or a seeded sample of them (quick). Non-trivial = a fault actually fired or a defect was "
    "applied; distinct = (operation, format, defect, target state, allow_changes, iterable kind, fault kind, "
    "bucketed k, outcome type)."
)
ASSUMPTIONS = [
    "CPython io.TextIOWrapper/io.BufferedWriter are the real ones; only the raw layer is simulated",
    "incompatibility classes are taken from the property's quantifier; the oracle for them is two-sided "
    "(PrepareDumpError with untouched target, or a successful dump that reloads)",
    "exceptions raised by the caller's own generator may reach the caller unwrapped",
]
COMPONENTS = {
    "real": ["iodata.api", "iodata.formats.*", "iodata.inputs.*", "iodata.prepare", "iodata.convert",
             "io.TextIOWrapper", "io.BufferedWriter", "numpy", "attrs"],
    "stub": ["file system (SimDisk)", "raw file object (SimRawW)", "caller iterable (TrackedFrames)"],
}

ERRS = ["ENOSPC", "EIO", "EDQUOT", "EPIPE", "EFBIG", "EROFS", "E524"]
PRE = "PRE-EXISTING CONTENT\nline two\n"

# (format, filename for pattern selection | None, [object recipes])
C = lambda f, **kw: {"kind": "corpus", "file": f, "mods": [], **kw}  # noqa: E731

ONE = {
    "xyz": ("o.xyz", [C("water.xyz"), C("al_fcc.xyz"), C("h2o_sto3g.fchk")]),
    "sdf": ("o.sdf", [C("formamide.sdf"), C("example.sdf"), C("water.xyz")]),
    "mol2": ("o.mol2", [C("water.mol2"), C("benzene.mol2"), C("water.xyz")]),
    "pdb": ("o.pdb", [C("water_single.pdb"), C("ch5plus.pdb")]),
    "poscar": ("POSCAR_o", [C("POSCAR.water"), C("CHGCAR.water")]),
    "cube": ("o.cube", [C("cubegen_h2o_5points.cube"), C("cubegen_ch4_6points.cube")]),
    "fcidump": ("o.fcidump", [C("FCIDUMP.psi4.h2"), C("FCIDUMP.molpro.h2")]),
    "json_qcschema": (None, [C("CuSCN_molecule.json"), C("LiCl_STO4G_Gaussian_input.json"),
                             C("water_cluster.json"), C("LiCl_STO4G_Gaussian_output.json"),
                             C("CuSCN_molecule_nested_extra.json")]),
    "fchk": ("o.fchk", [C("h2o_sto3g.fchk"), C("ch3_hf_sto3g.fchk"), C("hf_sto3g.fchk"),
                        C("water_sto3g_hf.wfx"), C("h2o.molden.input"), C("peroxide_opt.fchk")]),
    "molden": ("o.molden", [C("h2o.molden.input"), C("h2o_sto3g.fchk"), C("ch3_hf_sto3g.fchk"),
                            C("water_ccpvdz_pure_hf_g03.fchk")]),
    "molekel": ("o.mkl", [C("h2_sto3g.mkl"), C("h2o_sto3g.fchk"), C("ch3_hf_sto3g.fchk")]),
    "wfn": ("o.wfn", [C("he_s_orbital.wfn"), C("h2o_sto3g.wfn"), C("h2o_sto3g.fchk"), C("ch3_hf_sto3g.fchk"),
                      C("lih_cation_uhf.wfn")]),
    "wfx": ("o.wfx", [C("water_sto3g_hf.wfx"), C("lih_cation_uhf.wfx"), C("h2o_sto3g.fchk"),
                      C("ch3_hf_sto3g.fchk")]),
}
MANY = {
    "xyz": ("t.xyz", [C("water_trajectory.xyz", frame=0)]),
    "sdf": ("t.sdf", [C("example.sdf", frame=0)]),
    "mol2": ("t.mol2", [C("caffeine.mol2", frame=0), C("water.mol2", frame=0)]),
    "pdb": ("t.pdb", [C("water_trajectory.pdb", frame=0)]),
}
INCOMPAT = {
    # class -> (mod, formats it applies to, convertible with allow_changes)
    "generalized_mo": ({"op": "mo_generalized"}, ["fchk", "molden", "molekel", "wfn", "wfx"], False),
    "occs_aminusb": ({"op": "mo_aminusb"}, ["molden", "molekel", "wfn", "wfx"], True),
    # spin-paired open shell: occs_aminusb is present but all zero (still "restricted orbitals with occs_aminusb")
    "occs_aminusb_zero": ({"op": "mo_aminusb_zero"}, ["molden", "molekel", "wfn", "wfx"], True),
    "gen_contraction": ({"op": "gen_contraction"}, ["fchk", "molden", "molekel", "wfn", "wfx"], True),
    "pure_functions": ({"op": "pure_shell"}, ["wfn", "wfx"], False),
    "nonaufbau": ({"op": "nonaufbau"}, ["fchk"], False),
    "nonaufbau_beta": ({"op": "nonaufbau_beta"}, ["fchk"], False),
    "nonaufbau_near": ({"op": "nonaufbau_near"}, ["fchk"], False),
    # a generalized shell whose first contraction is Cartesian and whose second is pure
    "pure_functions_mixed": ({"op": "gen_shell", "angmoms": [1, 2], "kinds": ["c", "p"]}, ["wfn", "wfx"], False),
    "no_schema_name": ({"op": "drop_extra", "key": "schema_name"}, ["json_qcschema"], False),
    # shells of an angular momentum beyond the format's convention table (not one of the reasons listed in the
    # quantifier, but an incompatibility in the sense of the statement; two-sided oracle as for the others)
    "high_angmom": ({"op": "gen_shell", "angmoms": [5]}, ["molden", "molekel", "wfn", "wfx", "fchk"], False),
}
WFN_SOURCES = {"fchk", "molden", "molekel", "wfn", "wfx"}
NO_DUMP_FMT = ["gromacs", "charmm", "gaussianlog", "mwfn", "cp2klog"]
NO_DUMP_NAME = ["o.gro", "o.crd", "o.log", "o.mwfn", "o.unknownext", "noext"]

INPUT_TEMPLATES = [
    None,
    "#n {lot}/{obasis_name} {run_type}\n\n{title}\n\n{charge} {spinmult}\n{geometry}\n\n",
    "! {lot} {obasis_name}\n* xyz {charge} {spinmult}\n{geometry}\n*\n{extra_cmd}\n",
]


def declared_required(func):
    """Attributes a dump function declares as required: its `required` list together with what its generated
    documentation tells the user ("must have the following attributes initialized: ``a``, ``b``.")."""
    import re

    names = list(getattr(func, "required", []))
    doc = func.__doc__ or ""
    m = re.search(r"must have the following attributes initialized:\s*(.*?)\.(?:\s|$)", doc, re.S)
    if m:
        for name in re.findall(r"``(\w+)``", m.group(1)):
            if name not in names:
                names.append(name)
    return names


def setup_worker():
    from sim import sched

    sched.MONITOR.install(common.REPO)
    warnings.simplefilter("ignore")


# ------------------------------------------------------------------------------------------------
# planning


def _frame_recipes(rng, fmt, n):
    out = []
    for _ in range(n):
        out.append(gen.random_mol(rng, with_bonds=fmt in ("sdf", "mol2"), with_charges=fmt == "mol2",
                                  pdb=fmt == "pdb"))
    return out


def gen_workload(rng, tier):
    """One seeded concrete workload (without write faults)."""
    op = rng.choices(["dump_one", "dump_many", "write_input"], [6, 3, 1])[0]
    w = {"op": op, "allow_changes": rng.random() < 0.4, "defect": None, "kwargs": {},
         "target_pre": PRE if rng.random() < 0.6 else None,
         "knobs": {"buffer_size": rng.choice([1, 16, 128, 1024, 8192, 8192, 65536]),
                   "chunk_size": rng.choice([None, None, 64, 1024]),
                   # environment knob: the caller runs with warnings promoted to errors (python -W error)
                   "warnings": "error" if rng.random() < 0.12 else "always", "pathlib": rng.random() < 0.1,
                   # the caller is not the thread that imported the library (thread pool, GUI worker)
                   "in_thread": rng.random() < 0.1}}
    sel = rng.choices(["name", "explicit", "unknown", "unsupported"], [5, 4, 1, 1])[0]
    if op == "write_input":
        w["fmt"] = rng.choice(["gaussian", "orca"])
        w["filename"] = "in.com"
        w["objs"] = [rng.choice([C("water.xyz"), gen.random_mol(rng), C("h2o_sto3g.fchk")])]
        w["select"] = "explicit" if sel in ("name", "explicit", "unsupported") else "unknown"
        if w["select"] == "unknown":
            w["fmt"] = rng.choice(["nosuchprogram", "xyz", ""])
        r = rng.random()
        if r < 0.25:
            w["defect"] = {"cls": "bad_template", "template": rng.choice(
                ["{nonexistent_field}\n{geometry}", "{geometry", "{title!z}", "{0}", "{geometry.foo}"])}
        elif r < 0.4:
            w["defect"] = {"cls": "bad_run_type", "run_type": rng.choice(["dance", "OPTFREQ", "  "])}
        elif r < 0.5:
            w["defect"] = {"cls": "none_attrs", "attrs": [rng.choice(["atnums", "atcoords"])]}
        elif r < 0.6:
            w["defect"] = {"cls": "bad_atom_line"}
        else:
            w["kwargs"] = {"template_idx": rng.choice([0, 0, 1]) if w["fmt"] == "gaussian" else rng.choice([0, 0])}
        return w
    table = ONE if op == "dump_one" else MANY
    fmt = rng.choice(sorted(table))
    if op == "dump_one" and rng.random() < 0.4:
        fmt = rng.choice(["fchk", "molden", "molekel", "wfn", "wfx", "json_qcschema"])  # formats with a prepare_dump
    name, recipes = table[fmt]
    w["fmt"] = fmt
    w["select"] = sel
    if sel == "name" and name is None:
        w["select"] = sel = "explicit"
    w["filename"] = name or "o.json"
    if sel == "unknown":
        w["fmt_arg"] = rng.choice(["nosuchformat", "XYZ", "", "iodata"])
    elif sel == "unsupported":
        if rng.random() < 0.5:
            w["fmt_arg"] = rng.choice(NO_DUMP_FMT if op == "dump_one" else NO_DUMP_FMT + ["fchk", "cube", "extxyz"])
        else:
            w["fmt_arg"] = None
            w["filename"] = rng.choice(NO_DUMP_NAME if op == "dump_one" else NO_DUMP_NAME + ["o.fchk", "o.extxyz"])
    if op == "dump_one":
        if fmt in ("xyz", "sdf", "mol2", "pdb") and rng.random() < 0.4:
            objs = _frame_recipes(rng, fmt, 1)
        elif fmt in WFN_SOURCES and rng.random() < 0.3:
            objs = [gen.random_wfn(rng, pure=False if fmt in ("wfn", "wfx") else None)]
        else:
            objs = [copy.deepcopy(rng.choice(recipes))]
    else:
        n = rng.choice([0, 1, 1, 2, 3, 4, 6])
        if rng.random() < 0.3 and n:
            objs = [copy.deepcopy(recipes[0]) for _ in range(n)]
            for i, o in enumerate(objs):
                o["frame"] = 0
        else:
            objs = _frame_recipes(rng, fmt, n)
        w["iter_kind"] = rng.choice(["list", "gen", "gen", "iterobj", "gen_raise", "gen_reentrant"])
        if w["iter_kind"] == "gen_reentrant":
            w["knobs"]["in_thread"] = False  # the wall guard against self-deadlocks works in the main thread only
        if w["iter_kind"] == "gen_raise":
            w["raise_at"] = rng.randint(0, n)
    w["objs"] = objs
    # defects
    r = rng.random()
    if objs and r < 0.30:
        from iodata.api import FORMAT_MODULES

        req = declared_required(getattr(FORMAT_MODULES[fmt], op))
        # every required attribute alone (most often), and arbitrary subsets
        k = 1 if rng.random() < 0.6 else rng.randint(1, len(req))
        attrs_ = sorted(rng.sample(req, k))
        w["defect"] = {"cls": "none_attrs", "attrs": attrs_, "frame": 0 if rng.random() < 0.5 else rng.randrange(len(objs))}
    elif objs and r < (0.70 if fmt in WFN_SOURCES else 0.55) and op == "dump_one":
        classes = [c for c, (_m, fmts, _cv) in sorted(INCOMPAT.items()) if fmt in fmts]
        if classes:
            w["defect"] = {"cls": rng.choice(classes), "frame": 0}
            if w["defect"]["cls"] == "gen_contraction":
                # SP (both orders), repeated and mixed generalized contractions
                w["defect"]["variant"] = rng.choice([[0, 1], [1, 0], [0, 0], [0, 0, 0], [0, 2], [2, 1], [1, 1], None])
    return w


def enumerated_workloads():
    """The finite part of the quantifier, enumerated completely: every dump_one/dump_many format x every
    non-empty subset of its declared required attributes set to None x target {absent, pre-existing};
    every incompatibility class x format x allow_changes x target state (x shell pattern)."""
    import itertools

    from iodata.api import FORMAT_MODULES

    out = []
    for op, table in (("dump_one", ONE), ("dump_many", MANY)):
        for fmt in sorted(table):
            name, recipes = table[fmt]
            req = declared_required(getattr(FORMAT_MODULES[fmt], op))
            for r in range(1, len(req) + 1):
                for sub in itertools.combinations(req, r):
                    for pre in (None, PRE):
                        for frame in ((0,) if op == "dump_one" else (0, 1)):
                            w = {"op": op, "fmt": fmt, "select": "explicit", "filename": name or "o.json", "allow_changes": False,
                                 "kwargs": {}, "target_pre": pre, "knobs": {}, "enumerated": True,
                                 "defect": {"cls": "none_attrs", "attrs": list(sub), "frame": frame}}
                            if op == "dump_one":
                                w["objs"] = [copy.deepcopy(recipes[0])]
                            else:
                                w["objs"] = [copy.deepcopy(recipes[0]) for _ in range(3)]
                                for o in w["objs"]:
                                    o["frame"] = 0
                                w["iter_kind"] = "gen"
                            out.append(w)
    variants = [[0, 1], [1, 0], [0, 0], [0, 0, 0], [0, 2], [2, 1], [1, 1], None]
    for cls, (_mod, fmts, _conv) in sorted(INCOMPAT.items()):
        for fmt in fmts:
            name, recipes = ONE[fmt]
            for ri, recipe in enumerate(recipes[:3]):
                for allow in (False, True):
                    for pre in (None, PRE):
                        for var in (variants if cls == "gen_contraction" else [None]):
                            d = {"cls": cls, "frame": 0}
                            if var:
                                d["variant"] = var
                            out.append({"op": "dump_one", "fmt": fmt, "select": "explicit", "filename": name or "o.json",
                                        "allow_changes": allow, "kwargs": {}, "target_pre": pre, "knobs": {}, "enumerated": True,
                                        "defect": d, "objs": [copy.deepcopy(recipe)]})
    return out


def plan(tier, seed, args):
    n = args.runs or (2400 if tier == "quick" else 24000)
    tasks = []
    run = 0
    if args.only != "seeded":
        ws = enumerated_workloads()
        for i in range(0, len(ws), 40):
            tasks.append({"run": run, "seed": seed, "tier": tier, "enum": ws[i:i + 40]})
            run += 1
    if args.only != "enum":
        for i in range(n):
            tasks.append({"run": run, "seed": seed, "tier": tier})
            run += 1
    return tasks


# ------------------------------------------------------------------------------------------------
# execution of one concrete trace


def _build_objs(w):
    objs = [gen.build(r) for r in w["objs"]]
    d = w.get("defect")
    info = {"missing": [], "incompat": None}
    if d and objs:
        j = d.get("frame", 0)
        if d["cls"] == "none_attrs":
            for a in d["attrs"]:
                objs[j] = gen.apply_mod(objs[j], {"op": "set_none", "attr": a})
        elif d["cls"] in INCOMPAT:
            try:
                mod = INCOMPAT[d["cls"]][0]
                if d.get("variant"):
                    mod = {"op": "gen_shell", "angmoms": d["variant"]}
                objs[j] = gen.apply_mod(objs[j], mod)
                info["incompat"] = d["cls"]
            except Exception:  # noqa: BLE001 - the mod does not fit this object: no defect applied
                info["incompat"] = None
    var = (w.get("env") or {}).get("variant")
    if var and objs:
        objs = [_object_variant(o, var) for o in objs]
    return objs, info


class _IODataSubclass:
    """Created lazily: a subclass of IOData whose constructor takes other arguments (a user's convenience class)."""

    cls = None


def _object_variant(o, var):
    import collections
    import threading

    if getattr(o, "extra", None) is None and var in ("uncopyable_extra", "defaultdict_extra"):
        return o  # (the defect of this workload removed the attribute)
    if var == "uncopyable_extra":
        o.extra["verif_lock"] = threading.Lock()  # application data that copy.deepcopy refuses
        o.extra["verif_gen"] = (i for i in range(3))
    elif var == "defaultdict_extra":
        o.extra = collections.defaultdict(dict, o.extra)  # a dict subclass with __missing__
    elif var == "counts_before_mo" and o.mo is not None and o.mo.kind != "generalized":
        mo = o.mo
        try:
            o.mo = None
            o.nelec = mo.nelec
            o.spinpol = mo.spinpol
        except Exception:  # noqa: BLE001
            pass
        o.mo = mo  # electron count and spin assigned first, orbitals attached later: a legal history
    elif var == "subclass":
        from iodata import IOData

        if _IODataSubclass.cls is None:
            import attrs

            class MyData(IOData):
                def __init__(self, source=None, **kw):
                    super().__init__(**kw)
                    object.__setattr__(self, "source", source)

            _IODataSubclass.cls = MyData
        kw = {f.name.lstrip("_"): getattr(o, f.name) for f in __import__("attrs").fields(IOData)}
        try:
            o = _IODataSubclass.cls(source="user", **kw)
        except Exception:  # noqa: BLE001 - (over-determined combinations: keep the plain object)
            pass
    return o


def _call(w, objs, disk, tracker_box):
    import iodata
    from iodata import api

    path = w["filename"]
    if (w.get("knobs") or {}).get("pathlib"):
        import pathlib

        path = pathlib.Path(path)  # a legal way to name the file
    op = w["op"]
    if op == "write_input":
        d = w.get("defect") or {}
        kwargs = {}
        template = None
        if d.get("cls") == "bad_template":
            template = d["template"]
        elif w.get("kwargs", {}).get("template_idx"):
            template = INPUT_TEMPLATES[w["kwargs"]["template_idx"]]
        if d.get("cls") == "bad_run_type":
            objs[0].run_type = d["run_type"]
        atom_line = None
        if d.get("cls") == "bad_atom_line":
            atom_line = lambda data, i: data.atcoords[i][7]  # noqa: E731  IndexError while rendering
        return api.write_input(objs[0], path, w["fmt"], template=template, atom_line=atom_line, **kwargs)
    fmt_arg = w["fmt"] if w["select"] == "explicit" else w.get("fmt_arg")
    extra_kw = {"atom_column": 1} if (w.get("env") or {}).get("bad_kwarg") else {}
    if op == "dump_one":
        return iodata.dump_one(objs[0], path, fmt=fmt_arg, allow_changes=w["allow_changes"], **extra_kw)
    it, tracker = iters.make_iterable(disk, w["filename"], objs, w.get("iter_kind", "list"), w.get("raise_at"))
    tracker_box.append(tracker)
    return iodata.dump_many(it, path, fmt=fmt_arg, allow_changes=w["allow_changes"], **extra_kw)


def _in_thread(fn):
    """Run fn in a fresh thread and hand back its result / exception."""
    import threading

    box = {}

    def body():
        try:
            box["r"] = fn()
        except BaseException as exc:  # noqa: BLE001
            box["e"] = exc

    t = threading.Thread(target=body, name="caller-thread", daemon=True)
    t.start()
    t.join()
    if "e" in box:
        raise box["e"]
    return box.get("r")


def run_once(w, faults, budget=None):
    """Execute the API call of workload w under the given write-side faults.  Returns a record."""
    knobs = w.get("knobs", {})
    disk = seams.SimDisk(buffer_size=knobs.get("buffer_size", 8192), chunk_size=knobs.get("chunk_size"))
    path = w["filename"]
    env = w.get("env") or {}
    if env.get("missing_dir"):
        disk.declare_missing(env["missing_dir"])  # the target lies in a directory that does not exist
    if env.get("cwd_gone"):
        disk.cwd_gone = True  # the working directory was removed under the process: os.getcwd() raises
    if w.get("target_pre") is not None and not env.get("missing_dir"):
        disk.put(path, w["target_pre"].encode())
    plan_ = seams.WritePlan.from_faults(faults)
    disk.plans[path] = plan_
    objs, info = _build_objs(w)
    # what the declared required-list says about this object (computed on copies: getters have side effects)
    missing = []
    if w["op"] in ("dump_one", "dump_many") and w["select"] in ("name", "explicit") and objs:
        from iodata.api import FORMAT_MODULES

        func = getattr(FORMAT_MODULES[w["fmt"]], w["op"])
        for j, o in enumerate(objs):
            try:
                oc = copy.deepcopy(o)
            except TypeError:
                break  # (an object that cannot be copied: only used by the variant runs, which do not need the list)
            miss = [a for a in declared_required(func) if getattr(oc, a) is None]
            if miss:
                missing.append((j, miss))
    tracker_box = []
    rec = {"exc": None, "result_is_arg": None, "warnings": [], "steps": 0}
    werr = knobs.get("warnings") == "error"
    import contextlib

    # re-entrant use of the API (a producer that itself calls the library): a self-deadlock must become a verdict
    guard = WallGuard(8.0) if w.get("iter_kind") == "gen_reentrant" and not knobs.get("in_thread") else contextlib.nullcontext()
    with seams.Installed(disk), warnings.catch_warnings(record=True) as wlist, Steps(budget) as st, guard:
        warnings.simplefilter("error" if werr else "always")
        try:
            if knobs.get("in_thread"):
                result = _in_thread(lambda: _call(w, objs, disk, tracker_box))
            else:
                result = _call(w, objs, disk, tracker_box)
            rec["result_is_arg"] = bool(objs) and result is objs[0]
        except StepBudgetExceeded as exc:
            rec["exc"] = exc
        except BaseException as exc:  # noqa: BLE001 - judged by the oracle
            rec["exc"] = exc
    if rec["exc"] is not None:
        try:
            str(rec["exc"])
        except Exception as exc2:  # noqa: BLE001
            rec["str_fails"] = f"{type(exc2).__name__}: {exc2}"
    rec["steps"] = st.steps
    rec["warnings"] = [type(x.message).__name__ for x in wlist]
    rec["disk"] = disk
    rec["plan"] = plan_
    rec["missing"] = missing
    rec["incompat"] = info["incompat"]
    rec["tracker"] = tracker_box[0] if tracker_box else None
    rec["objs"] = objs
    rec["bytes"] = disk.get(path)
    rec["open_events"] = len(disk.events_for(path, ("open_w",)))
    rec["seam_events"] = len(disk.events_for(path, ("open_w", "open_r", "twrite", "rwrite", "rclose", "twrite_fail", "rwrite_fail")))
    rec["handles_open"] = len(disk.open_handles())
    rec["mkdirs"] = sorted(e["p"] for e in disk.events if e["e"] == "mkdir")
    rec["ntext"] = len(disk.events_for(path, ("twrite",)))
    rec["nraw"] = len(disk.events_for(path, ("rwrite",)))
    return rec


def _v(cls, msg, trace, extra_sig=""):
    w = trace
    d = w.get("defect") or {}
    fk = ",".join(sorted(f["kind"] for f in trace.get("faults", [])))
    sig = f"{cls}|{w['op']}|{w.get('fmt')}|{d.get('cls')}|{fk}|{extra_sig}"
    return {"cls": cls, "sig": sig, "msg": msg, "trace": copy.deepcopy(trace)}


def judge(trace, rec, base):
    """Oracle.  base = record of the fault-free run of the same workload (or None)."""
    out = []
    w = trace
    op = w["op"]
    exc = rec["exc"]
    et = type(exc).__name__ if exc is not None else None
    pre = w.get("target_pre")
    pre_b = None if pre is None else pre.encode()
    faults = trace.get("faults", [])
    fired = rec["plan"].fired
    failing_fired = [f for f in fired if f[0] != "raw_short_write"]

    def untouched():
        return rec["open_events"] == 0 and rec["bytes"] == pre_b

    if isinstance(exc, (StepBudgetExceeded, WallBudgetExceeded)):
        out.append(_v("liveness", f"the call did not return: {exc}", trace))
        return out
    if rec.get("str_fails"):
        out.append(_v("error_message_unprintable", f"{et} was raised but str() of it raises {rec['str_fails']}", trace, et))
        return out
    if (w.get("knobs") or {}).get("warnings") == "error":
        # Warnings are errors in this run: a warning raised inside iodata is just another failure, so which
        # calls fail is not judged - only that nothing but the contract's exception types escapes, that a
        # pre-flight error spares the target and that the file is closed.
        if exc is not None and et not in ("PrepareDumpError", "DumpError", "FileFormatError", "WriteInputError", "CallerFault"):
            out.append(_v("wrong_exception", f"with warnings as errors {et} escaped from {op}: {exc}", trace, f"werror/{et}"))
        if et in ("PrepareDumpError", "FileFormatError") and op != "write_input" and not (op == "dump_many" and rec["open_events"] and len(w["objs"]) > 1) \
                and (rec["open_events"] != 0 or rec["bytes"] != pre_b):
            out.append(_v("touched_before_error", f"with warnings as errors: {et} but the target was opened/changed", trace, "werror"))
        if rec["handles_open"]:
            out.append(_v("handle_leak", f"{rec['handles_open']} handle(s) still open after {op} ({et})", trace))
        return out
    if exc is not None and not isinstance(exc, Exception):
        out.append(_v("base_exception", f"{et}: {exc}", trace))
        return out
    if rec["handles_open"]:
        out.append(_v("handle_leak", f"{rec['handles_open']} handle(s) still open after {op} ({et})", trace))

    # 1. format selection failures
    if w["select"] in ("unknown", "unsupported"):
        if et != "FileFormatError":
            out.append(_v("wrong_exception", f"format selection {w['select']} gave {et}: {exc}", trace, "select"))
        if rec["seam_events"] != 0 or rec["bytes"] != pre_b:
            out.append(_v("touched_before_error", "file system touched although no format could be selected", trace, "select"))
        return out

    if op == "write_input":
        d = (w.get("defect") or {}).get("cls")
        expect_fail = d in ("bad_template", "bad_run_type", "bad_atom_line") or bool(failing_fired)
        if d == "none_attrs":
            expect_fail = None  # either outcome is fine, but only WriteInputError may escape
        if exc is not None and et != "WriteInputError":
            out.append(_v("wrong_exception", f"write_input let {et} escape: {exc}", trace, et))
        if expect_fail is True and exc is None:
            out.append(_v("missing_error", f"write_input succeeded despite {d or fired}", trace))
        if expect_fail is False and exc is not None:
            out.append(_v("spurious_error", f"write_input failed without fault/defect: {et}: {exc}", trace))
        if exc is None and base is not None and base["exc"] is None and rec["bytes"] != base["bytes"]:
            out.append(_v("bytes_differ", "output differs from the fault-free baseline", trace))
        return out

    # dump_one / dump_many ---------------------------------------------------------------------
    nframes = len(w["objs"])
    tracker = rec["tracker"]
    first_missing = [m for j, m in rec["missing"] if j == 0]
    later_missing = [(j, m) for j, m in rec["missing"] if j > 0]
    raise_at = w.get("raise_at") if w.get("iter_kind") == "gen_raise" else None

    if op == "dump_many" and nframes == 0 and raise_at is None:
        if et != "DumpError":
            out.append(_v("wrong_exception", f"empty frame sequence gave {et}: {exc}", trace, "empty"))
        if not untouched() or (pre is None and rec["bytes"] is not None):
            out.append(_v("touched_before_error", "empty frame sequence touched/created the target", trace, "empty"))
        return out
    if raise_at == 0:
        # the caller's own exception (or a wrapper) must reach the caller; nothing may be touched
        if exc is None:
            out.append(_v("swallowed", "generator failure at frame 0 was swallowed", trace, "iter0"))
        elif et not in ("CallerFault", "DumpError", "PrepareDumpError"):
            out.append(_v("wrong_exception", f"generator failure at frame 0 surfaced as {et}", trace, "iter0"))
        if not untouched():
            out.append(_v("touched_before_error", "target touched although the first frame never arrived", trace, "iter0"))
        return out

    if first_missing:
        if et != "PrepareDumpError":
            out.append(_v("wrong_exception", f"required attribute(s) {first_missing[0]} None in first frame: got {et}: {exc}", trace, "required"))
        if not untouched():
            out.append(_v("touched_before_error", f"target opened/changed although required attribute(s) {first_missing[0]} are None", trace, "required"))
        return out

    if rec["incompat"] is not None:
        _m, _fmts, convertible = INCOMPAT[rec["incompat"]]
        if et == "PrepareDumpError":
            if not untouched():
                out.append(_v("touched_before_error", f"PrepareDumpError({rec['incompat']}) but target was opened/changed", trace, "incompat"))
            return out
        if exc is None and not failing_fired:
            # a dump that succeeds must have produced something that loads (two-sided oracle)
            ok_reload = _reloads(w, rec)
            if ok_reload and rec["incompat"] in ("nonaufbau", "nonaufbau_beta", "nonaufbau_near") and not _occupations_survive(rec["objs"][0], rec["reloaded"], 1e-9 if rec["incompat"] == "nonaufbau_near" else 1e-6):
                out.append(_v("bad_success", f"dump of {rec['incompat']} object succeeded but the file denotes other occupations", trace, "incompat-occ"))
            if not ok_reload and _plain_object_reloads(w):
                # (only meaningful when the same object *without* the incompatibility writes a loadable file:
                # whether every written file can be read back is C01's subject, not C08's)
                out.append(_v("bad_success", f"dump of {rec['incompat']} object succeeded but the file does not load", trace, "incompat"))
            if w["allow_changes"] and convertible and "PrepareDumpWarning" not in rec["warnings"] and not rec["result_is_arg"]:
                out.append(_v("silent_conversion", "converted object returned without PrepareDumpWarning", trace, "incompat"))
            return out
        if not failing_fired:
            out.append(_v("wrong_exception", f"incompatible object ({rec['incompat']}, allow_changes={w['allow_changes']}) gave {et}: {exc}", trace, "incompat"))
            if rec["open_events"]:
                out.append(_v("touched_before_error", f"target opened before the {rec['incompat']} incompatibility was detected", trace, "incompat"))
            return out

    # from here on the first frame is fine: failures may only be DumpError / PrepareDumpError(later frame)
    if later_missing and (raise_at is None or raise_at > later_missing[0][0]) and not failing_fired:
        if et != "PrepareDumpError":
            out.append(_v("swallowed" if exc is None else "wrong_exception",
                          f"required attribute None in frame {later_missing[0][0]}: got {et}: {exc}", trace, "later"))
        return out
    if failing_fired:
        if exc is None:
            out.append(_v("missing_error", f"injected fault {failing_fired} did not surface", trace))
        elif et != "DumpError" and not (et == "PrepareDumpError" and later_missing):
            out.append(_v("wrong_exception", f"write fault {failing_fired[0]} surfaced as {et}: {exc}", trace, et))
        return out
    if raise_at is not None:
        if later_missing and later_missing[0][0] < raise_at:
            ok = ("PrepareDumpError",)
        else:
            ok = ("DumpError", "CallerFault")
        if exc is None:
            out.append(_v("swallowed", f"generator failure at frame {raise_at} was swallowed", trace, "iter"))
        elif et not in ok:
            out.append(_v("wrong_exception", f"generator failure at frame {raise_at} surfaced as {et}", trace, "iter"))
        elif et == "DumpError" and type(exc.__cause__).__name__ != "CallerFault":
            out.append(_v("cause_lost", f"DumpError not chained to the caller's exception ({type(exc.__cause__).__name__})", trace, "iter"))
        if tracker is not None and any(i > raise_at for i in tracker.pulled):
            out.append(_v("pulled_after_fault", "frames pulled after the generator failed", trace, "iter"))
        return out
    # no failing fault, no defect: must succeed with the baseline bytes
    if exc is not None:
        if et == "PrepareDumpError" and untouched() and not faults:
            # The workload (object x format) is rejected pre-flight for a reason outside the defect
            # table, e.g. SP shells written to Molden without allow_changes: not a valid workload.
            return out
        if base is not None and base["exc"] is not None and type(base["exc"]) is type(exc) and et == "PrepareDumpError":
            return out
        out.append(_v("spurious_error", f"{op} failed without failing fault: {et}: {exc}", trace, et))
        return out
    if base is not None and base["exc"] is None and rec["bytes"] != base["bytes"]:
        out.append(_v("bytes_differ", "short writes / knobs changed the bytes written", trace))
    if op == "dump_many" and tracker is not None:
        if tracker.n_iter != 1 or tracker.pulled != list(range(nframes)):
            out.append(_v("not_once", f"iterable consumed {tracker.n_iter}x, pulled {tracker.pulled}", trace))
    return out


def _reloads(w, rec, objs=None):
    import iodata

    disk = rec["disk"]
    fmt_arg = w["fmt"]
    try:
        with seams.Installed(disk):
            back = iodata.load_one(w["filename"], fmt=fmt_arg)
    except Exception:  # noqa: BLE001
        return False
    rec["reloaded"] = back
    return True


def _occupations_survive(data, back, atol=1e-6):
    """For an incompatibility that has no conversion (e.g. non-aufbau occupations for FCHK) a *successful* dump is
    only acceptable if the format really stores what was passed in: alpha/beta occupations read back unchanged."""
    try:
        a0, b0 = data.mo.occsa, data.mo.occsb
        a1, b1 = back.mo.occsa, back.mo.occsb
    except Exception:  # noqa: BLE001
        return True
    import numpy as np

    if a0 is None or a1 is None or a0.shape != a1.shape or b0.shape != b1.shape:
        return True
    return bool(np.allclose(a0, a1, rtol=0, atol=atol) and np.allclose(b0, b1, rtol=0, atol=atol))


def _plain_object_reloads(w):
    w0 = copy.deepcopy(w)
    w0["defect"] = None
    w0["allow_changes"] = True
    rec0 = run_once(w0, [])
    return rec0["exc"] is None and _reloads(w0, rec0)


PREFLIGHT = ("FileFormatError", "PrepareDumpError", "WriteInputError", "DumpError")


def env_variant(w, kind):
    """The same workload in another environment: target in a directory that does not exist / working directory gone."""
    v = copy.deepcopy(w)
    v["faults"] = []
    if kind == "missing_dir":
        v["env"] = {"missing_dir": "job1"}
        v["filename"] = "job1/out/" + w["filename"]
        v["target_pre"] = None
    elif kind == "cwd_gone":
        v["env"] = {"cwd_gone": True}
    elif kind == "bad_kwarg":
        v["env"] = {"bad_kwarg": True}  # an option the selected writer does not know (a typo, an option of another format)
    else:
        v["env"] = {"variant": kind}  # the same data held by an object that is unusual but legal
    return v


def judge_env(v, rec, base):
    """Oracle of the environment variants (base = the same workload in the ordinary environment, fault-free)."""
    out = []
    exc, bexc = rec["exc"], base["exc"]
    et = type(exc).__name__ if exc is not None else None
    bet = type(bexc).__name__ if bexc is not None else None
    env = v["env"]
    if isinstance(exc, (StepBudgetExceeded, WallBudgetExceeded)) or (exc is not None and not isinstance(exc, Exception)):
        return [_v("liveness", f"the call did not return: {exc}", v, "env")]
    if (v.get("knobs") or {}).get("warnings") == "error" or isinstance(bexc, (StepBudgetExceeded, WallBudgetExceeded)):
        return out
    if env.get("missing_dir"):
        rejected_untouched = bet in PREFLIGHT and base["open_events"] == 0
        if rejected_untouched:
            # rejected before anything is touched: the same rejection, and nothing appears in the file system
            if et != bet:
                out.append(_v("wrong_exception", f"target in a missing directory: {et} ({exc}) instead of the {bet} the call gets elsewhere", v, f"env/missing_dir/{et}"))
            if rec["mkdirs"] or rec["bytes"] is not None or rec["open_events"]:
                out.append(_v("touched_before_error", f"the call is rejected ({et}) but the file system was touched: directories created {rec['mkdirs']}, "
                              f"target {'created' if rec['bytes'] is not None else 'absent'}", v, "env/missing_dir"))
        elif exc is not None and et not in PREFLIGHT and not isinstance(exc, OSError) and et != "CallerFault":
            out.append(_v("wrong_exception", f"target in a missing directory: {et} escaped: {exc}", v, f"env/missing_dir/{et}"))
    if env.get("cwd_gone"):
        # relative names need no working-directory lookup: same outcome as in the ordinary environment
        if et != bet:
            out.append(_v("wrong_exception", f"working directory removed: {et} ({exc}) instead of {bet or 'success'}", v, f"env/cwd_gone/{et}"))
        elif exc is None and rec["bytes"] != base["bytes"]:
            out.append(_v("bytes_differ", "working directory removed: other bytes written than in the ordinary environment", v, "env/cwd_gone"))
    if env.get("bad_kwarg"):
        # whatever happens to an unknown option, only the contract's exception types may come out
        if exc is not None and et not in PREFLIGHT and et != "CallerFault":
            out.append(_v("wrong_exception", f"unknown keyword argument: {et} escaped: {exc}", v, f"env/bad_kwarg/{et}"))
        if et in ("PrepareDumpError", "FileFormatError") and v["op"] != "dump_many" and (rec["open_events"] or rec["bytes"] != (None if v.get("target_pre") is None else v["target_pre"].encode())):
            out.append(_v("touched_before_error", f"unknown keyword argument: {et} but the target was opened/changed", v, "env/bad_kwarg"))
    var = env.get("variant")
    if var in ("uncopyable_extra", "defaultdict_extra"):
        # the same content in another container / next to data the writers never look at: same outcome
        if et != bet:
            out.append(_v("wrong_exception", f"object variant {var}: {et} ({exc}) instead of {bet or 'success'}", v, f"env/{var}/{et}"))
        elif rec["bytes"] != base["bytes"]:
            out.append(_v("bytes_differ", f"object variant {var}: other bytes in the target than with a plain object ({et or 'success'})", v, f"env/{var}"))
    elif var:
        # (a conversion of such an object may be refused; what must hold is the error contract)
        if exc is not None and et not in PREFLIGHT and et != "CallerFault" and not (isinstance(exc, OSError) and rec["plan"].fired):
            out.append(_v("wrong_exception", f"object variant {var}: {et} escaped: {exc}", v, f"env/{var}/{et}"))
        if et in ("PrepareDumpError", "FileFormatError") and v["op"] != "dump_many" and (rec["open_events"] or rec["bytes"] != (None if v.get("target_pre") is None else v["target_pre"].encode())):
            out.append(_v("touched_before_error", f"object variant {var}: {et} but the target was opened/changed", v, f"env/{var}"))
    if rec["handles_open"]:
        out.append(_v("handle_leak", f"{rec['handles_open']} handle(s) still open ({et})", v, "env"))
    return out


def execute(trace):
    if trace.get("env"):
        w0 = copy.deepcopy(trace)
        w0.pop("env")
        if trace["env"].get("missing_dir"):
            w0["filename"] = trace["filename"].split("/")[-1]
            w0["target_pre"] = trace.get("target_pre")
        base = run_once(w0, [])
        return judge_env(trace, run_once(trace, [], max(20 * base["steps"], 2_000_000)), base)
    base = None
    if not trace.get("no_baseline"):
        w0 = copy.deepcopy(trace)
        base = run_once(w0, [])
    budget = None
    if base is not None:
        budget = max(20 * base["steps"], 2_000_000)
    rec = run_once(trace, trace.get("faults", []), budget)
    return judge(trace, rec, base)


# ------------------------------------------------------------------------------------------------
# a task = one workload + enumeration / sampling of fault positions


def _fault_positions(base, rng, tier):
    nt, nr = base["ntext"], base["nraw"]
    faults = []
    if tier == "thorough":
        tks = range(nt) if nt <= 400 else sorted(set(list(range(60)) + rng.sample(range(nt), 300) + list(range(nt - 40, nt))))
        rks = range(nr) if nr <= 200 else sorted(set(list(range(40)) + rng.sample(range(nr), 120) + list(range(nr - 20, nr))))
    else:
        tks = sorted(set(rng.sample(range(nt), min(nt, 6)) + ([0, nt - 1] if nt else [])))
        rks = sorted(set(rng.sample(range(nr), min(nr, 3)) + ([0, nr - 1] if nr else [])))
    for k in tks:
        faults.append([{"kind": "text_write_fail", "k": k, "errno": ERRS[k % len(ERRS)]}])
    for k in rks:
        faults.append([{"kind": "raw_write_fail", "k": k, "errno": ERRS[(k + 1) % len(ERRS)]}])
        faults.append([{"kind": "raw_short_write", "k": k, "n": rng.choice([1, 2, 7, 100])}])
    faults.append([{"kind": "close_fail", "errno": rng.choice(ERRS)}])
    # the disk fills up after `capacity` bytes and stays full (every later write and the flush at close fail too)
    total = len(base["bytes"] or b"")
    caps = {0, 1, max(0, total - 1), total // 2}
    for _ in range(4 if tier == "quick" else 24):
        caps.add(rng.randint(0, max(0, total - 1)))
    for cap in sorted(caps):
        if cap < total:
            faults.append([{"kind": "disk_full", "capacity": cap}])
    if nr >= 2:
        a, b = sorted(rng.sample(range(nr), 2))
        faults.append([{"kind": "raw_short_write", "k": a, "n": 1}, {"kind": "raw_write_fail", "k": b, "errno": "EIO"}])
    return faults


def _kbucket(k, n):
    if k == 0:
        return "first"
    if k == n - 1:
        return "last"
    return "mid"


def run_enum_task(task):
    stats = Stats()
    viols = []
    dig = []
    for w in task["enum"]:
        rec = run_once(copy.deepcopy(w), [])
        vs = judge({**w, "faults": []}, rec, None)
        viols.extend(vs)
        et = type(rec["exc"]).__name__ if rec["exc"] is not None else "ok"
        stats.inc(f"outcome.{et}")
        stats.inc("probe.enumerated_defect_workloads")
        stats.inc("steps", rec["steps"])
        d = w["defect"]
        if rec["missing"] or rec["incompat"]:
            stats.add("nontrivial", common.short(repr((w["op"], w["fmt"], d, w["target_pre"] is not None, w["allow_changes"]))))
        dig.append((w["op"], w["fmt"], common.jdump(d), et))
    return {"n": len(task["enum"]), "digest": common.short(repr(dig)), "violations": viols, "stats": stats.export(),
            "sample": {"mode": "enumerated defect workload", "workload": _brief(task["enum"][0]), "outcome": dig[0][3]} if task["run"] % 7 == 0 else None}


def run_task(task):
    if "enum" in task:
        return run_enum_task(task)
    rng = common.rng_for(task["seed"], ID, task["run"])
    tier = task["tier"]
    w = gen_workload(rng, tier)
    stats = Stats()
    viols = []
    digest_parts = []
    base = run_once(copy.deepcopy(w), [])
    n = 1
    vs = judge({**w, "faults": []}, base, None)
    viols.extend(vs)
    et = type(base["exc"]).__name__ if base["exc"] is not None else "ok"
    stats.inc(f"outcome.{et}")
    stats.inc("steps", base["steps"])
    d = (w.get("defect") or {}).get("cls")
    digest_parts.append((et, str(base["exc"])[:80], common.short(base["bytes"] or b""), base["ntext"], base["nraw"]))
    key = (w["op"], w.get("fmt"), d, w["select"], w.get("target_pre") is not None, w["allow_changes"], w.get("iter_kind"), "nofault", et)
    if d or w["select"] in ("unknown", "unsupported") or w.get("iter_kind") == "gen_raise":
        stats.add("nontrivial", common.short(repr(key)))
        stats.inc("probe.defect_runs")
        stats.inc(f"probe.defect_{d or w['select'] if d or w['select'] in ('unknown', 'unsupported') else 'iter_raise'}")
    if base["exc"] is None and w["op"] != "write_input" and not d:
        stats.add("valid_workloads", f"{w['op']}:{w['fmt']}")
    sample = None
    # the same workload in two other environments (own PRNG stream): target in a directory that does not exist, and
    # the working directory removed under the process
    erng = common.rng_for(task["seed"], ID, task["run"], "env")
    if w.get("iter_kind") != "gen_reentrant" and not isinstance(base["exc"], (StepBudgetExceeded, WallBudgetExceeded)):
        for kind, p_ in (("missing_dir", 0.3), ("cwd_gone", 0.2), ("uncopyable_extra", 0.12), ("defaultdict_extra", 0.15),
                         ("counts_before_mo", 0.12), ("subclass", 0.1), ("bad_kwarg", 0.12)):
            if kind == "bad_kwarg" and w["op"] == "write_input":
                continue
            if kind in ("uncopyable_extra", "defaultdict_extra", "counts_before_mo", "subclass") and (w["op"] == "write_input" or not w.get("objs")):
                continue
            if erng.random() < p_:
                v = env_variant(w, kind)
                rec = run_once(v, [], max(20 * base["steps"], 2_000_000))
                n += 1
                viols.extend(judge_env(v, rec, base))
                stats.inc(f"fault.env_{kind}")
                digest_parts.append((kind, type(rec["exc"]).__name__ if rec["exc"] is not None else "ok", rec["mkdirs"]))
    # faults only where a file is actually written (and the fault-free call returned at all)
    if base["open_events"] and (base["ntext"] or base["nraw"]) and not isinstance(base["exc"], (StepBudgetExceeded, WallBudgetExceeded)):
        budget = max(20 * base["steps"], 2_000_000)
        for faults in _fault_positions(base, rng, tier):
            trace = {**copy.deepcopy(w), "faults": faults}
            rec = run_once(trace, faults, budget)
            n += 1
            vs = judge(trace, rec, base)
            viols.extend(vs)
            fet = type(rec["exc"]).__name__ if rec["exc"] is not None else "ok"
            stats.inc(f"outcome.{fet}")
            stats.inc("steps", rec["steps"])
            for kind, k in rec["plan"].fired:
                stats.inc(f"fault.{kind}")
            if rec["plan"].fired:
                f0 = rec["plan"].fired[0]
                nn = base["ntext"] if f0[0] == "text_write_fail" else base["nraw"]
                stats.add("nontrivial", common.short(repr(key[:7] + (f0[0], _kbucket(f0[1], nn), fet))))
                # did the fault surface only when the with-block closed the file?
                if f0[0] in ("raw_write_fail", "close_fail") and rec["exc"] is not None:
                    evs = rec["disk"].events_for(w["filename"])
                    last_t = max([e["s"] for e in evs if e["e"] == "twrite"] or [0])
                    fail_s = [e["s"] for e in evs if e["e"] in ("rwrite_fail",)]
                    if f0[0] == "close_fail" or (fail_s and fail_s[0] > last_t):
                        stats.inc("probe.fault_surfaced_at_close")
            digest_parts.append((faults[0]["kind"], faults[0].get("k"), fet, common.short(rec["bytes"] or b"")))
            if sample is None and rec["plan"].fired:
                sample = {"workload": _brief(w), "faults": faults, "outcome": fet,
                          "message": str(rec["exc"])[:160], "steps": rec["steps"],
                          "fault_free": {"text_writes": base["ntext"], "raw_writes": base["nraw"]}}
    if sample is None:
        sample = {"workload": _brief(w), "faults": [], "outcome": et, "message": str(base["exc"])[:160]}
    return {"n": n, "digest": common.short(repr(digest_parts)), "violations": viols, "stats": stats.export(),
            "sample": sample if task["run"] % 37 == 0 or viols else None}


def _brief(w):
    b = {k: v for k, v in w.items() if k not in ("objs",)}
    b["objs"] = [r.get("file", r["kind"]) for r in w["objs"]]
    return b


# ------------------------------------------------------------------------------------------------
# minimisation: drop faults, shrink k, drop frames, simplify knobs


def shrink(trace, still_fails):
    t = copy.deepcopy(trace)
    # fewer faults
    if len(t.get("faults", [])) > 1:
        fl = shr.ddmin_list(t["faults"], lambda fs: still_fails({**t, "faults": fs}))
        t["faults"] = fl
    # smaller k
    for i, f in enumerate(t.get("faults", [])):
        if "k" in f and f["k"] > 0:
            def test(k, i=i):
                t2 = copy.deepcopy(t)
                t2["faults"][i]["k"] = k
                return still_fails(t2)
            t["faults"][i]["k"] = shr.shrink_int(f["k"], test)
    # default knobs
    t2 = {**t, "knobs": {"buffer_size": 8192, "chunk_size": None}}
    if t2 != t and still_fails(t2):
        t = t2
    # fewer frames (keep defect frame index valid)
    if t["op"] == "dump_many" and len(t["objs"]) > 1 and not t.get("defect"):
        objs = shr.ddmin_list(t["objs"], lambda os_: still_fails({**t, "objs": os_, "raise_at": min(t.get("raise_at") or 0, len(os_))}), min_len=1)
        t["raise_at"] = min(t.get("raise_at") or 0, len(objs)) if t.get("raise_at") is not None else None
        t["objs"] = objs
    # no pre-existing file
    if t.get("target_pre") is not None:
        t2 = {**t, "target_pre": None}
        if still_fails(t2):
            t = t2
    return t


def coverage_extra(stats, tier):
    return {
        "fault_kinds_configured": ["text_write_fail", "raw_write_fail", "raw_short_write", "close_fail", "disk_full (persistent)",
                                   "iter_raise (caller generator)", "short+fail combination"],
        "valid_workloads": sorted(stats.s.get("valid_workloads", [])),
        "enumerated_defect_workloads": stats.c.get("probe.enumerated_defect_workloads", 0),
        "enumeration": "every format x every non-empty subset of its required list x target state (x frame index for dump_many) and every incompatibility class x format x allow_changes x target state are enumerated completely; write-fault positions are enumerated per workload (thorough) or sampled (quick)",
        "simulated_time": "logical steps (LINE events inside iodata); iodata has no clock",
    }
