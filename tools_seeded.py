"""Evaluate a seeded breaking change:  /venv/bin/python tools_seeded.py <seeded-dir> [--tests] [--checks C07,C08]

<seeded-dir> holds patch.diff (git diff of /repo), demo.py and meta.json (property, needs, ...).
A scratch copy of /repo is made under /tmp (removed afterwards), the demo is run without and with the
patch, optionally the repo's own test-suite is run on the patched copy, and the registered quick check
of the property (or the given checks) is run with VERIF_REPO pointing at the patched copy.
Results are merged into meta.json under "verification".
"""

import json
import os
import shutil
import subprocess
import sys
import tempfile
import time

VERIF = os.path.dirname(os.path.abspath(__file__))
REPO = "/repo"


def run(cmd, cwd=None, env=None, timeout=3600):
    t0 = time.time()
    cp = subprocess.run(cmd, cwd=cwd, env=env, capture_output=True, text=True, timeout=timeout)
    return cp.returncode, cp.stdout, cp.stderr, round(time.time() - t0, 1)


def main():
    args = sys.argv[1:]
    d = os.path.abspath(args[0])
    with_tests = "--tests" in args
    checks = None
    for i, a in enumerate(args):
        if a == "--checks":
            checks = args[i + 1].split(",")
    tier = "quick"
    for i, a in enumerate(args):
        if a == "--tier":
            tier = args[i + 1]
    meta_path = os.path.join(d, "meta.json")
    meta = json.load(open(meta_path)) if os.path.exists(meta_path) else {}
    prop = meta.get("property")
    checks = checks or [prop]
    scratch = tempfile.mkdtemp(prefix="seeded-")
    env = {k: v for k, v in os.environ.items() if not k.startswith("VERIF_")}
    ver = {"repo_head": subprocess.check_output(["git", "-C", REPO, "log", "-1", "--format=%h"]).decode().strip()}
    try:
        root = os.path.join(scratch, "repo")
        shutil.copytree(REPO, root, ignore=shutil.ignore_patterns(".git", "__pycache__", "docs", "*.egg-info"))
        demo = os.path.join(d, "demo.py")
        demo_rel = os.path.join("_seed", "change1", "demo.py")  # the layout the demos were written for
        if os.path.exists(demo):
            os.makedirs(os.path.join(root, "_seed", "change1"), exist_ok=True)
            for f in os.listdir(d):
                if f not in ("meta.json",):
                    shutil.copy(os.path.join(d, f), os.path.join(root, "_seed", "change1", f))
            rc, out, err, dt = run(["/venv/bin/python", demo_rel], cwd=root, env=env, timeout=900)
            ver["demo_without_patch"] = {"exit": rc, "wall_s": dt, "tail": (out + err)[-300:]}
        rc, out, err, _ = run(["git", "apply", "--whitespace=nowarn", os.path.join(d, "patch.diff")], cwd=root)
        if rc != 0:
            rc, out, err, _ = run(["patch", "-p1", "-i", os.path.join(d, "patch.diff")], cwd=root)
        ver["patch_applies"] = rc == 0
        if rc != 0:
            ver["patch_error"] = (out + err)[-400:]
        else:
            if os.path.exists(demo):
                rc, out, err, dt = run(["/venv/bin/python", demo_rel], cwd=root, env=env, timeout=900)
                ver["demo_with_patch"] = {"exit": rc, "wall_s": dt, "tail": (out + err)[-300:]}
            if with_tests:
                rc, out, err, dt = run(["/venv/bin/python", "-m", "pytest", "-q", "-p", "no:cacheprovider", "-n", "8",
                                        "--ignore=iodata/test/test_overlap.py", "iodata"], cwd=root, env=env, timeout=3600)
                ver["repo_tests_with_patch"] = {"exit": rc, "wall_s": dt, "tail": out.strip().splitlines()[-1][:200] if out.strip() else ""}
            ver["checks"] = {}
            for c in checks:
                cenv = {**os.environ, "VERIF_REPO": root}
                cenv.pop("VERIF_SEED", None)
                rc, out, err, dt = run([os.path.join(VERIF, "check"), c, "--tier", tier, "--no-evidence"], env=cenv, timeout=7200)
                viol = [l for l in out.splitlines() if l.startswith("VIOLATION ")]
                msgs = [l.strip()[:240] for l in out.splitlines() if l.startswith("  ") and ": " in l and not l.startswith("  (")]
                ver["checks"][c] = {"tier": tier, "exit": rc, "violation_lines": len(viol), "first_messages": msgs[:3], "wall_s": dt,
                                    "caught": rc == 1 and bool(viol)}
                if rc not in (0, 1):
                    ver["checks"][c]["tail"] = (out + err)[-600:]
    finally:
        shutil.rmtree(scratch, ignore_errors=True)
    meta.setdefault("verification", {}).update(ver)
    with open(meta_path, "w") as fh:
        json.dump(meta, fh, indent=1)
    print(json.dumps(ver, indent=1))


if __name__ == "__main__":
    main()
