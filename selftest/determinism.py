"""./check selftest-determinism : every engine, many seeds, each run executed several times -
twice with 16 workers, once with 3 workers, once in a fresh interpreter under another
PYTHONHASHSEED - and the per-run digests (workload, fault firings, schedule, outcome records)
must be pairwise identical."""

import json
import os
import subprocess
import sys
import time

from sim import common

SETS = {
    # check -> extra args (a reduced but representative batch)
    "C07": ["--only", "seeded", "--runs", "120"],
    "C08": ["--runs", "300"],
    "C09": ["--runs", "600"],
    "C11": ["--only", "seeded", "--runs", "120"],
    "C12": ["--only", "seeded", "--runs", "200"],
    "C13": ["--only", "gen", "--runs", "80"],
    "C16": ["--runs", "260"],
    "C18": ["--runs", "300"],
}
CONFIGS = [("w16-a", {"VERIF_WORKERS": "16"}), ("w16-b", {"VERIF_WORKERS": "16"}), ("w3", {"VERIF_WORKERS": "3"}),
           ("hashseed", {"VERIF_WORKERS": "16", "VERIF_HASHSEED": "12345"})]


def digests(prop, extra, envx, seed):
    env = {**os.environ, **envx, "VERIF_SEED": str(seed)}
    cp = subprocess.run([os.path.join(common.VERIF, "check"), prop, "--digest-only", "--no-evidence", *extra],
                        capture_output=True, text=True, env=env, timeout=3000)
    d = {}
    for line in cp.stdout.splitlines():
        if line.startswith("DIGEST "):
            _, run, dg, odg = line.split()
            d[run] = (dg, odg)
    return d, cp.returncode, cp.stdout[-400:] + cp.stderr[-400:]


def main(args):
    props = [p for p in SETS if not args.only or p == args.only]
    seeds = [11, 2026]
    bad = 0
    report = {}
    for prop in props:
        for seed in seeds:
            t0 = time.time()
            ref = None
            for name, envx in CONFIGS:
                d, rc, tail = digests(prop, SETS[prop], envx, seed)
                if rc not in (0, 1) or not d:
                    print(f"{prop} seed={seed} {name}: HARNESS problem rc={rc}\n{tail}")
                    bad += 1
                    continue
                if ref is None:
                    ref = d
                    continue
                # Under another PYTHONHASHSEED only the outcome digests are compared: iodata's QCSchema parser
                # iterates over Python sets, so its own line-event count (our step clock, hence the schedule of
                # threaded runs) legitimately depends on the hash seed.  The launcher pins PYTHONHASHSEED=0.
                k = 1 if name == "hashseed" else 0
                diff = [r for r in ref if d.get(r, (None, None))[k] != ref[r][k]] + [r for r in d if r not in ref]
                if diff:
                    bad += 1
                    print(f"{prop} seed={seed}: {name} differs from {CONFIGS[0][0]} in {len(diff)} of {len(ref)} runs, e.g. run {diff[:5]}")
            n = len(ref or {})
            report[f"{prop}/{seed}"] = {"runs_compared": n, "configs": [c[0] for c in CONFIGS], "wall_s": round(time.time() - t0, 1)}
            print(f"{prop} seed={seed}: {n} run digests x {len(CONFIGS)} executions compared ({time.time() - t0:.0f}s)")
            sys.stdout.flush()
    with open(os.path.join(common.VERIF, "selftest", "determinism_last.json"), "w") as fh:
        json.dump({"divergences": bad, "report": report}, fh, indent=1)
    print("determinism:", "OK" if not bad else f"{bad} DIVERGENCES")
    return 0 if not bad else 1
