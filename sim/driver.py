"""Generic check driver: plan -> run in workers -> classify -> minimise -> replay file -> evidence.

A check module provides
    ID, LEVEL, DEFAULT_SEED, RULE, ASSUMPTIONS, COMPONENTS
    plan(tier, seed, args) -> list of picklable task dicts
    setup_worker()          (optional) once per worker
    run_task(task) -> {"digest": str, "violations": [viol], "stats": Stats.export(), "sample": any|None}
    execute(trace) -> list of violation dicts   (pure function of the concrete trace and the code)
    shrink(trace, still_fails) -> smaller trace (optional)
    coverage_extra(stats, results) -> dict      (optional)
A violation dict: {"cls": short class name, "sig": signature string, "msg": text, "trace": concrete trace}
"""

import base64
import hashlib
import json
import os
import re
import subprocess
import sys
import time

from . import common, pool
from .common import Stats

EXIT_OK, EXIT_VIOLATION, EXIT_TIMEOUT, EXIT_HARNESS = 0, 1, 3, 4


def load_findings():
    path = os.path.join(common.VERIF, "known_findings.json")
    if not os.path.exists(path):
        return {"findings": [], "fixed": []}
    with open(path) as fh:
        return json.load(fh)


def match_finding(findings, prop, viol):
    for f in findings["findings"]:
        if f["property"] != prop:
            continue
        if f.get("cls") is not None and f["cls"] != viol["cls"]:
            continue
        key = f.get("sig_prefix")
        if key is not None and not viol["sig"].startswith(key):
            continue
        rx = f.get("sig_regex")
        if rx is not None and not re.search(rx, viol["sig"]):
            continue
        keys = f.get("sig_in")
        if keys is not None and viol["sig"] not in keys:
            continue
        return f
    return None


def _replay_path(prop, seed, viol):
    h = hashlib.sha256(viol["sig"].encode()).hexdigest()[:10]
    return os.path.join(common.VERIF, "replays", f"{prop}-{seed}-{h}.json")


def write_replay(prop, seed, viol, minimised, note=""):
    path = _replay_path(prop, seed, viol)
    os.makedirs(os.path.dirname(path), exist_ok=True)
    doc = {
        "property": prop,
        "seed": seed,
        "violation_class": viol["cls"],
        "signature": viol["sig"],
        "message": viol["msg"],
        "minimised": minimised,
        "note": note,
        "trace": viol["trace"],
    }
    with open(path, "w") as fh:
        json.dump(doc, fh, indent=1, sort_keys=True, default=common._jdefault)
    return path


def replay(mod, path):
    with open(path) as fh:
        doc = json.load(fh)
    if hasattr(mod, "setup_worker"):
        mod.setup_worker()
    viols = mod.execute(doc["trace"])
    same = [v for v in viols if v["cls"] == doc["violation_class"]]
    if same:
        v = same[0]
        print(f"replayed: {v['cls']}: {v['msg']}")
        print(f"VIOLATION property={mod.ID} replay={path}")
        return EXIT_VIOLATION
    if viols:
        print(f"REPLAY: original class {doc['violation_class']} not reproduced; other classes: "
              + ", ".join(sorted({v['cls'] for v in viols})))
        return EXIT_OK
    print("REPLAY: not reproduced (no violation)")
    return EXIT_OK


def _minimise_task(task):
    """Runs in a worker (keeps the parent pristine)."""
    import importlib

    mod = importlib.import_module(task["module"])
    viol = task["viol"]
    cls = viol["cls"]
    budget = [task.get("budget", 300)]
    t_end = time.time() + task.get("wall", 60)

    def still_fails(trace):
        if budget[0] <= 0 or time.time() > t_end:
            return False
        budget[0] -= 1
        try:
            vs = mod.execute(trace)
        except Exception:  # noqa: BLE001 - a candidate that breaks the harness is not a reduction
            return False
        return any(v["cls"] == cls for v in vs)

    trace = viol["trace"]
    if hasattr(mod, "shrink"):
        try:
            small = mod.shrink(trace, still_fails)
        except Exception:  # noqa: BLE001
            small = trace
    else:
        small = trace
    # final confirmation on the candidate
    vs = [v for v in mod.execute(small) if v["cls"] == cls]
    if vs:
        return {"viol": vs[0], "minimised": small != trace, "tries": task.get("budget", 300) - budget[0]}
    return {"viol": viol, "minimised": False, "tries": task.get("budget", 300) - budget[0]}


def run_check(mod, args):
    prop = mod.ID
    if args.replay:
        return replay(mod, args.replay)
    tier = args.tier
    seed = common.base_seed(mod.DEFAULT_SEED)
    t0 = time.time()
    print(f"[{prop}] tier={tier} seed={seed} repo={common.REPO}")
    sys.stdout.flush()
    import glob

    for old_replay in glob.glob(os.path.join(common.VERIF, "replays", f"{prop}-*.json")):
        os.remove(old_replay)
    tasks = mod.plan(tier, seed, args)
    print(f"[{prop}] {len(tasks)} tasks planned in {time.time() - t0:.1f}s")
    sys.stdout.flush()
    timeout = getattr(mod, "TASK_TIMEOUT", 600)
    wall_cap = getattr(mod, "WALL_CAP", {}).get(tier)
    if os.environ.get("VERIF_BUDGET_S"):
        wall_cap = float(os.environ["VERIF_BUDGET_S"])
    try:
        results = pool.run_tasks(
            mod.run_task, tasks, setup=getattr(mod, "setup_worker", None), workers=args.workers,
            batch=getattr(mod, "BATCH", 8), timeout=timeout, mem_gib=getattr(mod, "MEM_GIB", 4),
            wall_cap=wall_cap,
        )
    except pool.HarnessTimeout as exc:
        print(f"HARNESS-TIMEOUT property={prop}: {exc}")
        return EXIT_TIMEOUT

    stats = Stats()
    viols = []
    samples = []
    digests = []
    harness_errors = []
    nrun = 0
    skipped = 0
    for task, res in zip(tasks, results):
        if res is None:
            skipped += 1
            continue
        if "harness_error" in res:
            harness_errors.append(res)
            continue
        nrun += res.get("n", 1)
        stats.merge_export(res["stats"])
        digests.append(res["digest"])
        for v in res["violations"]:
            viols.append(v)
        if res.get("sample") is not None and len(samples) < 40:
            samples.append(res["sample"])
    if args.digest_only:
        for task, res in zip(tasks, results):
            if res is not None and "digest" in res:
                print(f"DIGEST {task.get('run', '?')} {res['digest']} {res.get('odigest', res['digest'])}")
    all_digest = hashlib.sha256("".join(digests).encode()).hexdigest()[:16]
    print(f"[{prop}] {nrun} runs executed ({skipped} tasks skipped by wall cap), "
          f"{len(viols)} raw violations, run-digest {all_digest}, {time.time() - t0:.1f}s")
    if harness_errors:
        for he in harness_errors[:3]:
            print("HARNESS-ERROR in task", json.dumps(he.get("task"), default=str)[:300])
            print(he["harness_error"])
        print(f"HARNESS-ERROR property={prop}: {len(harness_errors)} task(s) failed inside the harness")
        return EXIT_HARNESS

    # --- classify ------------------------------------------------------------------------------
    findings = load_findings()
    by_sig = {}
    for v in viols:
        by_sig.setdefault(v["sig"], []).append(v)
    known_seen = {}
    unknown = []
    for sig, vs in sorted(by_sig.items()):
        f = match_finding(findings, prop, vs[0])
        if f is not None:
            known_seen.setdefault(f["id"], [f, 0])
            known_seen[f["id"]][1] += len(vs)
            if os.environ.get("VERIF_DEBUG"):
                print("   KSIG", f["id"], sig, len(vs))
        else:
            # smallest trace first: cheaper to minimise
            vs.sort(key=lambda v: len(common.jdump(v["trace"])))
            unknown.append(vs[0])
    if unknown:
        cls_count = {}
        for v in unknown:
            cls_count[v["cls"]] = cls_count.get(v["cls"], 0) + 1
        print(f"[{prop}] distinct unknown signatures per class: {cls_count}")
        if os.environ.get("VERIF_DEBUG"):
            for v in unknown:
                print("   SIG", v["sig"], "::", v["msg"][:160])
    for fid, (f, n) in sorted(known_seen.items()):
        print(f"KNOWN-FINDING: property={prop} {f['what']} [{fid}; seen {n}x in this run]")

    # --- minimise + replay files ------------------------------------------------------------------
    exit_code = EXIT_OK
    reported = []
    if unknown:
        # group by class: report at most MAX_REPORT per class, minimised
        per_cls = {}
        for v in unknown:
            per_cls.setdefault(v["cls"], []).append(v)
        todo = []
        for cls, vs in sorted(per_cls.items()):
            todo.extend(vs[: getattr(mod, "MAX_REPORT", 3)])
        mtasks = [{"module": mod.__name__, "viol": v, "budget": getattr(mod, "SHRINK_BUDGET", 300),
                   "wall": getattr(mod, "SHRINK_WALL", 90)} for v in todo]
        try:
            mres = pool.run_tasks(_minimise_task, mtasks, setup=getattr(mod, "setup_worker", None),
                                  workers=min(len(mtasks), pool.default_workers()), batch=1,
                                  timeout=900, mem_gib=getattr(mod, "MEM_GIB", 4))
        except pool.HarnessTimeout:
            mres = [None] * len(mtasks)
        for v, mr in zip(todo, mres):
            if mr is None or "harness_error" in mr:
                viol, minimised, note = v, False, "minimisation failed; original trace kept"
            else:
                viol, minimised, note = mr["viol"], mr["minimised"], f"{mr['tries']} shrink executions"
            # A minimised trace may turn out to be a known finding: then it is reported as such.
            f = match_finding(findings, prop, viol)
            if f is not None and match_finding(findings, prop, v) is None:
                viol, minimised, note = v, False, "minimised form matched a known finding; original kept"
            path = write_replay(prop, seed, viol, minimised, note)
            ok = _verify_replay(prop, path)
            print(f"  {viol['cls']}: {viol['msg'][:300]}")
            if not ok:
                print(f"  (warning: fresh-interpreter replay of {path} did not reproduce)")
            print(f"VIOLATION property={prop} replay={path}")
            reported.append({"cls": viol["cls"], "sig": viol["sig"], "replay": path, "replays_fresh": ok})
        extra = len(unknown) - len(todo)
        if extra > 0:
            print(f"  (+{extra} further distinct violation signatures not written out)")
        exit_code = EXIT_VIOLATION

    # --- evidence ----------------------------------------------------------------------------------
    wall = time.time() - t0
    if not args.no_evidence and not args.digest_only:
        cov = {
            "evaluations": int(nrun),
            "distinct_nontrivial": int(stats.distinct("nontrivial")),
            "rule": mod.RULE,
            "samples": samples[:12] or [{"note": "no sample recorded"}],
            "exhaustive": False,
            "runs_per_hour": int(nrun / max(wall, 1e-6) * 3600),
            "logical_steps": int(stats.c.get("steps", 0)),
            "faults_fired": stats.counts("fault."),
            "outcomes": stats.counts("outcome."),
            "probes": stats.counts("probe."),
            "distinct": {k: len(v) for k, v in sorted(stats.s.items())},
            "components": getattr(mod, "COMPONENTS", {}),
            "known_findings_seen": {fid: n for fid, (_f, n) in known_seen.items()},
            "run_digest": all_digest,
            "tasks_skipped_by_wall_cap": skipped,
            "workers": args.workers or pool.default_workers(),
            "violations_reported": reported,
        }
        mpath = os.path.join(common.VERIF, "selftest", "mutants_last.json")
        if os.path.exists(mpath):
            try:
                with open(mpath) as fh:
                    last = json.load(fh)
                cov["mutants_killed_in_last_selftest"] = sorted(m["id"] for m in last if m.get("prop") == prop and m.get("killed"))
                cov["mutants_survived_in_last_selftest"] = sorted(m["id"] for m in last if m.get("prop") == prop and not m.get("killed"))
            except (OSError, ValueError):
                pass
        if hasattr(mod, "coverage_extra"):
            cov.update(mod.coverage_extra(stats, tier))
        ev = {
            "property_id": prop,
            "tier": tier,
            "seed": int(seed),
            "level": mod.LEVEL,
            "coverage": cov,
            "assumptions": list(getattr(mod, "ASSUMPTIONS", [])),
            "wall_s": round(wall, 2),
            "violations": len(unknown),
        }
        os.makedirs(os.path.join(common.VERIF, "evidence"), exist_ok=True)
        with open(os.path.join(common.VERIF, "evidence", f"{prop}.json"), "w") as fh:
            json.dump(ev, fh, indent=1, sort_keys=True, default=common._jdefault)
    print(f"[{prop}] done in {wall:.1f}s exit={exit_code}")
    return exit_code


def _verify_replay(prop, path):
    try:
        cp = subprocess.run(
            [os.path.join(common.VERIF, "check"), prop, "--replay", path, "--no-evidence"],
            capture_output=True, text=True, timeout=600,
            env={**os.environ, "VERIF_REPO": common.REPO},
        )
    except subprocess.TimeoutExpired:
        return False
    return cp.returncode == EXIT_VIOLATION and "VIOLATION property=" in cp.stdout


def b64(data):
    return base64.b64encode(bytes(data)).decode()


def unb64(text):
    return base64.b64decode(text)
