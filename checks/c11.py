"""C11 - charge, electron count and core charges stay consistent under any assignments.

Weakest fit of the technique (no I/O, clock or thread): two logical clients on one IOData
object - a mutator executing a program of constructions/assignments and an observer issuing
reads - interleaved by the seeded scheduler; invariants I1-I7 and a small reference model are
evaluated on a deep copy after every step.
"""

import copy
import sys
import os

import numpy as np

from sim import canon, common
from sim import shrink as shr
from sim.common import Stats

ID = "C11"
LEVEL = "exploration"
DEFAULT_SEED = 1111
BATCH = 2
TASK_TIMEOUT = 600
WALL_CAP = {"quick": 100, "thorough": 2400}
RULE = (
    "One evaluation = one history: construct(any subset of atnums, atcorenums, charge, nelec, spinpol, atcoords, "
    "atmasses, atgradient, atfrozen, mo) followed by 0..11 operations, each either a mutator assignment/clear of one "
    "of those attributes (values from small alphabets incl. None, fractional charges, arrays of length 1/2/3, "
    "restricted/unrestricted orbitals) or an observer read, their interleaving chosen by the seeded scheduler. After "
    "every step I1..I6 are evaluated on a deep copy; the mutator-only projection is executed a second time without "
    "the observer (I7). Threaded runs: 2..3 real threads, each executing its own history on its own object under the "
    "baton scheduler (pre-emption at iodata lines); every client's outcomes must equal its solo run. Non-trivial = the history holds at least one interleaved read and one rejected operation; "
    "distinct = hash of the operation list."
)
ASSUMPTIONS = [
    "no exception is injected into setters: the statement promises no atomicity under foreign exceptions",
    "a legal assignment that is rejected is not a violation by itself (the statement only says which assignments must be rejected)",
    "the reference model implements the sentences of the statement literally (core charges = explicit value, else atnums as float)",
]
COMPONENTS = {"real": ["iodata.iodata.IOData", "iodata.attrutils validators/converters", "iodata.orbitals.MolecularOrbitals", "attrs"],
              "stub": ["scheduler choosing where observer reads fall between mutator steps", "reference model (ideal core charges)"]}

BACKGROUND = [{"file": "water.xyz"}, {"file": "h2o_sto3g.wfn"}, {"file": "he_s_orbital.wfn"}, {"file": "h2o_sto3g.fchk"},
              {"file": "h2_sto3g.mkl"}, {"file": "water.mol2"}, {"file": "water_single.pdb"}, {"file": "lih_cation_uhf.wfx"},
              {"file": "CuSCN_molecule.json", "fmt": "json_qcschema"}, {"file": "h2o.molden.input"}]
PER_ATOM = ["atnums", "atcorenums", "atcoords", "atmasses", "atgradient", "atfrozen"]
ATTRS = ["atnums", "atcorenums", "charge", "nelec", "spinpol", "mo", "atcoords", "atmasses", "atgradient", "atfrozen"]
READS = ["charge", "nelec", "spinpol", "atcorenums", "natom", "atnums"]
VALUES = {
    "atnums": [None, [1], [8, 1], [6, 6], [8, 1, 1], [3, 17], [0, 2], [], {"scalar": 8}],
    "atcorenums": [None, [1.0], [6.0, 1.0], [8.0, 1.0], [4.0, 4.0], [8.0, 1.0, 1.0], [2.5, 0.0], [], {"scalar": 10.0}],
    "charge": [None, 0, 1, -1, 0.5, 2.0],
    "nelec": [None, 10, 9, 2, 9.5, 0],
    "spinpol": [None, 0, 1, 2, 0.4, 2.5, 0.9999999999999999],
    "mo": [None, "R2", "R21", "U2", "Rfrac", "G", "Rnone", "Unone"],
    "atcoords": [None, 1, 2, 3, 0, {"flat": 2}, {"flat": 3}],
    "atmasses": [None, 1, 2, 3, 0],
    "atgradient": [None, 1, 2, 3, 0, {"flat": 2}],
    "atfrozen": [None, 1, 2, 3, 0, {"scalar": True}],
}


def make_value(attr, v):
    from iodata.orbitals import MolecularOrbitals

    if v is None:
        return None
    if isinstance(v, dict) and "scalar" in v:
        return np.array(v["scalar"])  # a 0-d value where a per-atom array belongs
    if isinstance(v, dict) and "flat" in v:
        return np.zeros(v["flat"])  # a 1-D array where an (N, 3) array belongs
    if attr == "mo":
        if v == "R2":
            return MolecularOrbitals("restricted", 2, 2, occs=np.array([2.0, 0.0]))
        if v == "R21":
            return MolecularOrbitals("restricted", 3, 3, occs=np.array([2.0, 1.0, 0.0]))
        if v == "U2":
            return MolecularOrbitals("unrestricted", 2, 2, occs=np.array([1.0, 1.0, 1.0, 0.0]))
        if v == "Rfrac":
            return MolecularOrbitals("restricted", 2, 2, occs=np.array([1.6, 0.4]))
        if v == "G":
            return MolecularOrbitals("generalized", None, None, occs=np.array([1.0, 1.0, 0.0]))
        if v == "Rnone":
            return MolecularOrbitals("restricted", 2, 2)  # orbitals without occupation numbers
        if v == "Unone":
            return MolecularOrbitals("unrestricted", 1, 2)
    if attr == "atcoords" or attr == "atgradient":
        return np.arange(3 * v, dtype=float).reshape(v, 3) * 0.5
    if attr == "atmasses":
        return np.arange(1, v + 1, dtype=float) * 1.5
    if attr == "atfrozen":
        return np.array([i % 2 == 0 for i in range(v)])
    if attr == "atcorenums":
        return np.array(v, dtype=float)  # arrays, as in the statement (the setter calls .sum() on it)
    if attr == "atnums":
        return np.array(v, dtype=int)
    return copy.deepcopy(v)


def length_of(attr, v):
    if v is None:
        return None
    if isinstance(v, dict):
        return "wrong-rank"  # never agrees with anything: must be rejected
    if attr in ("atcoords", "atmasses", "atgradient", "atfrozen"):
        return v
    return len(v)


def view(obj):
    """Public observables on a deep copy."""
    c = copy.deepcopy(obj)
    out = {}
    for name in ("natom", "atnums", "atcorenums", "charge", "nelec", "spinpol", "atcoords", "atmasses", "atgradient", "atfrozen"):
        try:
            out[name] = canon.canon(getattr(c, name))
        except Exception as exc:  # noqa: BLE001
            out[name] = ("raises", type(exc).__name__)
    out["mo"] = canon.canon(c.mo)
    return out


class AccessorRaised(Exception):
    """Reading an observable of an accepted object raised (other than the documented
    NotImplementedError of generalized orbitals): the object is in an inconsistent state."""


def read_on_copy(obj, name):
    c = copy.deepcopy(obj)
    try:
        return getattr(c, name)
    except NotImplementedError:
        return "NotImplemented"
    except Exception as exc:  # noqa: BLE001
        raise AccessorRaised(f"reading {name} raises {type(exc).__name__}: {exc}") from exc


class Model:
    """Reference model: the sentences of the statement, plus bookkeeping that recognises the known
    history pattern F6 (default core charges materialised in hidden state, then atnums assigned)."""

    def __init__(self):
        self.atnums = None
        self.cor_explicit = None
        self.lengths = {a: None for a in PER_ATOM}
        self.mat = None  # hidden default materialised by the implementation (classification only)
        self.mo = None

    def ideal_cores(self):
        if self.cor_explicit is not None and not isinstance(self.cor_explicit, dict):
            return np.asarray(self.cor_explicit, float)
        if self.atnums is not None and not isinstance(self.atnums, dict):
            return np.asarray(self.atnums, float)
        return None

    def materialise(self):
        if self.cor_explicit is None and self.atnums is not None and self.mat is None and not isinstance(self.atnums, dict):
            self.mat = np.asarray(self.atnums, float)

    def stale(self):
        if self.mat is None or self.cor_explicit is not None:
            return False
        if self.atnums is None or isinstance(self.atnums, dict):
            return True
        a = np.asarray(self.atnums, float)
        return a.shape != self.mat.shape or not np.array_equal(a, self.mat)

    def assign(self, attr, v):
        if attr == "atnums":
            self.atnums = v
            self.lengths["atnums"] = length_of(attr, v)
        elif attr == "atcorenums":
            self.cor_explicit = v
            self.mat = None
            self.lengths["atcorenums"] = length_of(attr, v)
        elif attr in PER_ATOM:
            self.lengths[attr] = length_of(attr, v)
        elif attr == "mo":
            self.mo = v
        elif attr == "charge":
            self.materialise()

    def other_lengths(self, attr):
        out = set()
        for a, l in self.lengths.items():
            if a != attr and l is not None:
                out.add(l)
        if attr != "atnums" and attr != "atcorenums" and self.lengths["atcorenums"] is None and self.lengths["atnums"] is not None:
            out.add(self.lengths["atnums"])
        return out


def _close(a, b):
    if a is None or b is None:
        return a is None and b is None
    return abs(float(a) - float(b)) <= 1e-9 * max(1.0, abs(float(a)), abs(float(b)))


def _v(cls, msg, trace, k, stale):
    t = copy.deepcopy(trace)
    t["ops"] = t["ops"][: k + 1]
    tag = "stale-default-cores" if stale else "clean"
    return {"cls": cls, "sig": f"{cls}|{tag}", "msg": f"step {k}: {msg}" + (" [history holds the pattern: default core charges materialised, then atnums assigned]" if stale else ""),
            "trace": t}


def check_invariants(obj, model, trace, k, out):
    try:
        _check_invariants(obj, model, trace, k, out)
    except Exception as exc:  # noqa: BLE001 - an accepted object whose own accessors crash is inconsistent
        out.append(_v("I0_accessor_crashes", f"reading the observables raises {type(exc).__name__}: {exc}", trace, k, model.stale()))


def _check_invariants(obj, model, trace, k, out):
    from iodata import IOData  # noqa: F401

    stale = model.stale()
    cores = read_on_copy(obj, "atcorenums")
    nelec = read_on_copy(obj, "nelec")
    charge = read_on_copy(obj, "charge")
    spinpol = read_on_copy(obj, "spinpol")
    # I1
    if cores is not None and nelec is not None:
        if not _close(charge, np.sum(cores) - nelec):
            out.append(_v("I1_charge_consistency", f"charge {charge} != sum(atcorenums) {np.sum(cores)} - nelec {nelec}", trace, k, stale))
    # I3 / explicit cores kept
    ideal = model.ideal_cores()
    if (ideal is None) != (cores is None) or (ideal is not None and (ideal.shape != np.shape(cores) or not np.allclose(ideal, cores))):
        cls = "I3_default_cores" if model.cor_explicit is None else "I2_explicit_cores_changed"
        out.append(_v(cls, f"atcorenums reads {None if cores is None else list(cores)} but "
                      f"{'atnums are ' + str(model.atnums) + ' and no core charges were set explicitly' if model.cor_explicit is None else 'was explicitly set to ' + str(model.cor_explicit)}",
                      trace, k, stale))
    # I4
    if obj.mo is not None:
        try:
            mn, ms = obj.mo.nelec, obj.mo.spinpol
        except NotImplementedError:
            mn, ms = obj.mo.nelec, "NotImplemented"
        if not (_close(nelec, mn) if mn is not None else nelec is None):
            out.append(_v("I4_mo_nelec", f"nelec {nelec} != mo.nelec {mn}", trace, k, stale))
        if ms != "NotImplemented" and spinpol != "NotImplemented" and not (_close(spinpol, ms) if ms is not None else spinpol is None):
            out.append(_v("I4_mo_spinpol", f"spinpol {spinpol} != mo.spinpol {ms}", trace, k, stale))
    # I5a: all non-None per-atom arrays agree
    lens = {}
    c = copy.deepcopy(obj)
    for a in PER_ATOM:
        val = getattr(c, a)
        if val is not None:
            lens[a] = len(val)
    if len(set(lens.values())) > 1:
        out.append(_v("I5_natom_disagreement", f"per-atom arrays disagree: {lens}", trace, k, stale))


def run_ops(trace, with_observer=True, check=True):
    """Executes the history on the real IOData.  Returns (violations, mutator outcomes, final view)."""
    from iodata import IOData

    out = []
    model = Model()
    obj = None
    mut_outcomes = []
    info = {"rejected": 0, "reads": 0, "materialised_by_read": 0}
    for k, op in enumerate(trace["ops"]):
        if op["who"] == "obs":
            if not with_observer or obj is None:
                continue
            info["reads"] += 1
            name = op["attr"]
            before = view(obj)
            was_mat = model.mat is not None
            try:
                v1 = getattr(obj, name)
            except NotImplementedError:
                v1 = "NotImplemented"
            except Exception as exc:  # noqa: BLE001
                v1 = ("raises", type(exc).__name__)
                if check:
                    out.append(_v("I0_accessor_crashes", f"reading {name} raises {type(exc).__name__}: {exc}", trace, k, model.stale()))
            mid = view(obj)
            try:
                v2 = getattr(obj, name)
            except NotImplementedError:
                v2 = "NotImplemented"
            except Exception as exc:  # noqa: BLE001
                v2 = ("raises", type(exc).__name__)
            after = view(obj)
            if name in ("atcorenums", "charge"):
                model.materialise()
                if not was_mat and model.mat is not None:
                    info["materialised_by_read"] += 1
            if check:
                if canon.canon(v1) != canon.canon(v2):
                    out.append(_v("I6_read_not_idempotent", f"reading {name} twice gave {v1} then {v2}", trace, k, model.stale()))
                if before != mid or mid != after:
                    d = [n for n in before if before[n] != after[n] or before[n] != mid[n]]
                    out.append(_v("I6_read_changes_state", f"reading {name} changed the observables {d}", trace, k, model.stale()))
            continue
        # mutator
        if op["op"] == "construct":
            kwargs = {a: make_value(a, v) for a, v in op["kwargs"].items()}
            try:
                obj = IOData(**kwargs)
                mut_outcomes.append(("ok", canon.canon(view(obj))))
            except (TypeError, ValueError) as exc:
                mut_outcomes.append(("raises", type(exc).__name__))
                info["rejected"] += 1
                obj = None
                # a construction with inconsistent arrays must be rejected; nothing to check further
                return out, mut_outcomes, None, info
            model = Model()
            if not check and any(isinstance(op["kwargs"].get(a), dict) for a in PER_ATOM):
                return out, mut_outcomes, None, info
            for a in ATTRS:
                if a in op["kwargs"] and a != "charge":
                    model.assign(a, op["kwargs"][a])
            if "charge" in op["kwargs"] and op["kwargs"]["charge"] is not None:
                model.materialise()
            if check:
                ls = {a: length_of(a, op["kwargs"][a]) for a in PER_ATOM if op["kwargs"].get(a) is not None}
                if "wrong-rank" in ls.values():
                    out.append(_v("I5_wrong_rank_accepted", f"constructed with a per-atom value of the wrong number of dimensions: {ls}", trace, k, False))
                    return out, mut_outcomes, None, info  # the reference model has no meaning for such an object
                if len(set(ls.values())) > 1:
                    out.append(_v("I5_bad_construction_accepted", f"constructed with per-atom lengths {ls}", trace, k, False))
                check_invariants(obj, model, trace, k, out)
                # constructor arguments read back
                for a in ("charge", "nelec", "spinpol"):
                    if a in op["kwargs"] and op["kwargs"][a] is not None and obj.mo is None:
                        if (a in ("charge", "nelec") and op["kwargs"].get("nelec") is not None and op["kwargs"].get("charge") is not None
                                and model.ideal_cores() is not None):
                            continue  # over-determined (cores, charge and nelec all given): one of them has to give
                        try:
                            got = read_on_copy(obj, a)
                        except AccessorRaised as exc:
                            out.append(_v("I0_accessor_crashes", str(exc), trace, k, model.stale()))
                            continue
                        if not _close(got, op["kwargs"][a]):
                            out.append(_v("I2_readback", f"constructed with {a}={op['kwargs'][a]} but it reads {got}", trace, k, model.stale()))
            continue
        if obj is None:
            continue
        attr, v = op["attr"], op["value"]
        before = view(obj)
        val = make_value(attr, v)
        try:
            cores_before = read_on_copy(obj, "atcorenums")
        except AccessorRaised as exc:
            out.append(_v("I0_accessor_crashes", str(exc), trace, k, model.stale()))
            return out, mut_outcomes, None, info
        try:
            setattr(obj, attr, val)
            raised = None
        except (TypeError, ValueError) as exc:
            raised = exc
        after = view(obj)
        if raised is not None:
            if attr == "charge":
                model.materialise()  # the setter reads atcorenums before it can fail
            info["rejected"] += 1
            mut_outcomes.append(("raises", type(raised).__name__))
            if check:
                if not isinstance(raised, TypeError):
                    out.append(_v("I5_wrong_exception", f"{attr}={v} raised {type(raised).__name__} instead of TypeError: {raised}", trace, k, model.stale()))
                if before != after:
                    d = [n for n in before if before[n] != after[n]]
                    out.append(_v("I5_rejected_assignment_changed_state", f"{attr}={v} raised {type(raised).__name__} but changed {d}", trace, k, model.stale()))
            continue
        mut_outcomes.append(("ok", canon.canon(after)))
        if check:
            # I5b: an assignment that breaks the agreement must have been rejected
            if attr in PER_ATOM and v is not None:
                L = length_of(attr, v)
                others = model.other_lengths(attr)
                if L == "wrong-rank":
                    out.append(_v("I5_wrong_rank_accepted", f"{attr}={v} (wrong number of dimensions for a per-atom array) was accepted", trace, k, model.stale()))
                    return out, mut_outcomes, None, info  # the reference model has no meaning for such an object
                elif any(L != o for o in others if o != "wrong-rank"):
                    out.append(_v("I5_breaking_assignment_accepted", f"{attr} of length {L} accepted although other per-atom arrays have lengths {sorted(others, key=str)}", trace, k, model.stale()))
            if attr in ("nelec", "spinpol") and obj.mo is not None:
                out.append(_v("I4_assignment_accepted_with_mo", f"{attr}={v} accepted although orbitals are present", trace, k, model.stale()))
            if attr in ("charge", "nelec", "spinpol"):
                try:
                    got = read_on_copy(obj, attr)
                    cores_after = read_on_copy(obj, "atcorenums")
                except AccessorRaised as exc:
                    out.append(_v("I0_accessor_crashes", str(exc), trace, k, model.stale()))
                    return out, mut_outcomes, None, info
                if obj.mo is None or attr == "charge":
                    if not _close(got, v):
                        out.append(_v("I2_readback", f"{attr}={v} assigned but it reads back {got}", trace, k, model.stale()))
                if canon.canon(cores_before) != canon.canon(cores_after):
                    out.append(_v("I2_cores_changed", f"assigning {attr}={v} changed the core charges {cores_before} -> {cores_after}", trace, k, model.stale()))
        model.assign(attr, v)
        if check:
            check_invariants(obj, model, trace, k, out)
    final = view(obj) if obj is not None else None
    return out, mut_outcomes, final, info


def setup_worker():
    from sim import sched

    sched.MONITOR.install(common.REPO)


def run_threads(trace, rng=None):
    """Several clients, each executing its own history on its own object, interleaved by the baton scheduler
    at iodata line granularity.  Objects are distinct, so every client's outcomes must equal its solo run
    (catches process-wide switches such as globally disabled validators)."""
    from sim import sched

    hists = trace["histories"]
    solo = []
    for h in hists:
        _o, mo, fin, _i = run_ops(h, True, False)
        solo.append((mo, fin))
    policy = tuple(trace["policy"])
    if trace.get("schedule") is not None:
        policy = ("replay", trace["schedule"])
    baton = sched.Baton(rng, policy, horizon=3000)
    got = [None] * len(hists)

    def make(i):
        def body():
            _o, mo, fin, _i = run_ops(hists[i], True, False)
            got[i] = (mo, fin)
        return body

    fns = [make(i) for i in range(len(hists))]
    bg = trace.get("background")
    if bg:
        # a client that uses the library through its API at the same time (its own result is C16's business)
        def background():
            import warnings

            import iodata

            with warnings.catch_warnings():
                warnings.simplefilter("ignore")
                try:
                    iodata.load_one(os.path.join(common.DATA, bg["file"]), fmt=bg.get("fmt"))
                except Exception:  # noqa: BLE001
                    pass
        fns.append(background)
    # (step budget: a livelock among the clients ends as a StepBudgetExceeded death of a client, not as a hang)
    with sched.Steps(budget=3_000_000, sched=baton) as st:
        done = baton.run(fns)
    out = []
    for c in done[: len(hists)]:
        if c.error is not None:
            out.append({"cls": "T0_client_died", "sig": f"T0_client_died|{type(c.error).__name__}",
                        "msg": f"client {c.idx} died under interleaving: {type(c.error).__name__}: {c.error}", "trace": copy.deepcopy(trace)})
    for i, (a, b) in enumerate(zip(got, solo)):
        if a is not None and a != b:
            k = next((j for j, (x, y) in enumerate(zip(a[0], b[0])) if x != y), None)
            out.append({"cls": "T1_outcome_differs_under_interleaving", "sig": "T1_outcome_differs_under_interleaving|",
                        "msg": f"client {i}: mutator step {k} gave {str(a[0][k])[:90] if k is not None and k < len(a[0]) else a[1]} under interleaving "
                               f"but {str(b[0][k])[:90] if k is not None and k < len(b[0]) else b[1]} alone (distinct objects!)",
                        "trace": copy.deepcopy(trace)})
    return out, baton, st.steps


# ------------------------------------------------------------------------------------------------
# scripted scenarios around one object's history: shared buffers, orbitals attached and removed, orbitals edited


def _mo(name):
    return make_value("mo", name)


def gen_scenario(rng):
    n = rng.choice([1, 2, 3])
    cores = [float(rng.choice([1, 6, 8, 2.5])) for _ in range(n)]
    kind = rng.choice(["alias", "alias", "stored", "stored", "moedit"])
    t = {"scenario": kind, "cores": cores}
    if kind == "alias":
        t["how"] = rng.choice(["both_constructed", "assigned_from_other", "caller_keeps"])
        t["ops"] = [rng.choice([["atcorenums", [float(rng.choice([1, 6, 8, 3.5])) for _ in range(n)], rng.choice(["list", "array"])],
                                ["charge", rng.choice([0, 1, -1, 0.5])], ["nelec", rng.choice([2, 9, 10])],
                                ["atnums", [int(rng.choice([1, 6, 8])) for _ in range(n)]]]) for _ in range(rng.randint(1, 4))]
    elif kind == "stored":
        t["assign"] = rng.sample([["nelec", rng.choice([2, 9, 9.5])], ["spinpol", rng.choice([0, 1, 2, 0.4])], ["charge", rng.choice([0, 1, -1, 0.5])]], rng.randint(1, 3))
        t["mo"] = rng.choice(["R2", "R21", "U2", "Rfrac", "Rnone", "Unone"])
        t["reads_between"] = rng.random() < 0.5
    else:
        t["mo"] = rng.choice(["U2", "U2", "R21"])
        t["first_read"] = rng.random() < 0.8
        t["edit"] = rng.choice([["occsb", [1.0, 1.0]], ["occsa", [1.0, 0.0]], ["occsb", [0.0, 0.0]], ["occs_index", 0, 0.25]])
    return t


def run_scenario(t):
    from iodata import IOData

    out = []

    def v(cls, msg):
        out.append({"cls": cls, "sig": f"{cls}|{t['scenario']}", "msg": msg, "trace": copy.deepcopy(t)})

    cores = np.array(t["cores"], dtype=float)
    try:
        if t["scenario"] == "alias":
            shared = cores
            pristine = shared.copy()
            a = IOData(atcorenums=shared)
            if t["how"] == "both_constructed":
                b = IOData(atcorenums=shared)
            elif t["how"] == "assigned_from_other":
                b = IOData()
                b.atcorenums = a.atcorenums
            else:
                b = None
            vb = None if b is None else view(b)
            for k, op in enumerate(t["ops"]):
                val = op[1]
                if op[0] == "atcorenums":
                    val = np.array(val, dtype=float) if op[2] == "array" else list(val)
                elif op[0] == "atnums":
                    val = np.array(val)
                try:
                    setattr(a, op[0], val)
                except (TypeError, ValueError):
                    pass
                if not np.array_equal(shared, pristine):
                    v("I8_caller_array_modified", f"step {k}: assigning {op[0]}={op[1]} to one object wrote into the caller's own core-charge array: {pristine.tolist()} -> {shared.tolist()}")
                    break
                if b is not None and view(b) != vb:
                    d = [n_ for n_ in vb if vb[n_] != view(b)[n_]]
                    v("I8_other_object_changed", f"step {k}: assigning {op[0]}={op[1]} to one object changed {d} of another object that was given the same array")
                    break
        elif t["scenario"] == "stored":
            a = IOData(atcorenums=cores)
            for name, val in t["assign"]:
                try:
                    setattr(a, name, val)
                except (TypeError, ValueError):
                    pass
            r0 = {n_: read_on_copy(a, n_) for n_ in ("charge", "nelec", "spinpol")}
            a.mo = _mo(t["mo"])
            if t["reads_between"]:
                for n_ in ("nelec", "charge", "spinpol"):
                    try:
                        getattr(a, n_)
                    except Exception:  # noqa: BLE001
                        pass
            a.mo = None
            r1 = {n_: read_on_copy(a, n_) for n_ in ("charge", "nelec", "spinpol")}
            bad = [n_ for n_ in r0 if not (_close(r0[n_], r1[n_]))]
            if bad:
                v("I2_assigned_value_lost", f"after {t['assign']} the object read {r0}; orbitals ({t['mo']}) were attached and removed again; now it reads {r1}")
        else:
            a = IOData(atcorenums=cores, mo=_mo(t["mo"]))
            if t["first_read"]:
                _ = a.nelec, a.charge
            e = t["edit"]
            try:
                if e[0] == "occs_index":
                    a.mo.occs[e[1]] = e[2]
                elif a.mo.kind == "unrestricted" or e[0] == "occsa":
                    setattr(a.mo, e[0], np.array(e[1][: (a.mo.norba if e[0] == "occsa" else a.mo.norbb)] + [0.0] * 3)[: (a.mo.norba if e[0] == "occsa" else a.mo.norbb)])
            except (TypeError, ValueError, NotImplementedError):
                return out
            want = float(np.sum(a.mo.occs))
            got = a.nelec
            if not _close(got, want):
                v("I4_nelec_not_of_the_orbitals", f"after editing the attached orbitals ({e}) their occupations sum to {want} but the object's nelec reads {got}")
            elif not _close(a.charge, float(cores.sum()) - want):
                v("I1_charge_relation", f"after editing the attached orbitals ({e}) charge reads {a.charge}, core charges sum to {cores.sum()} and the orbitals hold {want} electrons")
    except AccessorRaised as exc:
        v("I0_accessor_crashes", str(exc))
    return out


def execute(trace):
    if "scenario" in trace:
        return run_scenario(trace)
    if trace.get("pyopt") and not sys.flags.optimize:
        from sim import pyopt

        return pyopt.execute_optimized("checks.c11", trace)
    if "histories" in trace:
        return run_threads(trace, rng=common.rng_for("replay"))[0]
    out, mo_a, fin_a, info = run_ops(trace, True, True)
    has_obs = any(op["who"] == "obs" for op in trace["ops"])
    if has_obs:
        # I7: the mutator's outcomes do not depend on the observer's reads
        _o, mo_b, fin_b, _i = run_ops(trace, False, False)
        if mo_a != mo_b or fin_a != fin_b:
            k = len(trace["ops"]) - 1
            for i, (x, y) in enumerate(zip(mo_a, mo_b)):
                if x != y:
                    break
            # the pattern behind F6 is a read that materialises hidden state
            out.append({"cls": "I7_observer_dependence",
                        "sig": "I7_observer_dependence|" + ("read-materialised-default" if info["materialised_by_read"] else "clean"),
                        "msg": f"the mutator's outcomes differ with and without the observer's reads (first difference at mutator step {i}: "
                               f"{str(mo_a[i])[:80] if i < len(mo_a) else None} vs {str(mo_b[i])[:80] if i < len(mo_b) else None})",
                        "trace": copy.deepcopy(trace)})
    return out


# ------------------------------------------------------------------------------------------------


def gen_trace(rng):
    attrs_ = rng.sample(ATTRS, rng.randint(0, 5))
    kwargs = {a: rng.choice(VALUES[a]) for a in attrs_}
    if rng.random() < 0.7:
        # bias towards consistent constructions (inconsistent ones end the history at once)
        n = rng.choice([1, 2, 2, 3, 0])
        for a in list(kwargs):
            if a in PER_ATOM and kwargs[a] is not None:
                cands = [v for v in VALUES[a] if v is not None and length_of(a, v) == n]
                kwargs[a] = rng.choice(cands) if cands else None
    ops = [{"who": "mut", "op": "construct", "kwargs": kwargs}]
    for _ in range(rng.randint(0, 11)):
        if rng.random() < 0.35:
            ops.append({"who": "obs", "op": "read", "attr": rng.choice(READS)})
        else:
            a = rng.choice(ATTRS)
            ops.append({"who": "mut", "op": "set", "attr": a, "value": rng.choice(VALUES[a])})
    return {"ops": ops}


def all_ops():
    ops = []
    for a in ATTRS:
        for v in VALUES[a]:
            ops.append({"who": "mut", "op": "set", "attr": a, "value": v})
    for r in READS:
        ops.append({"who": "obs", "op": "read", "attr": r})
    return ops


def constructs(max_kwargs):
    import itertools

    out = [{}]
    for k in range(1, max_kwargs + 1):
        for attrs_ in itertools.combinations(ATTRS, k):
            for vals in itertools.product(*[VALUES[a] for a in attrs_]):
                out.append(dict(zip(attrs_, vals)))
    return out


def exhaustive_space(tier):
    """Bounded exhaustive part: (construct with <= 1 argument) x all op sequences of length <= D1, and
    (construct with <= 2 arguments) x all op sequences of length <= D2."""
    d1, d2 = (1, 0) if tier == "quick" else (2, 1)
    return [(1, d1), (2, d2)]


def exhaustive_histories(max_kwargs, depth, lo, hi):
    """The histories number lo..hi-1 of the enumeration (construct index major, op sequences minor)."""
    import itertools

    ops = all_ops()
    cons = constructs(max_kwargs)
    if max_kwargs == 2:
        cons = [c for c in cons if len(c) == 2]  # <=1 argument is covered by the other space
    seqs = [()]
    for d in range(1, depth + 1):
        seqs += list(itertools.product(range(len(ops)), repeat=d))
    total = len(cons) * len(seqs)
    for idx in range(lo, min(hi, total)):
        ci, si = divmod(idx, len(seqs))
        yield {"ops": [{"who": "mut", "op": "construct", "kwargs": cons[ci]}] + [ops[j] for j in seqs[si]]}


def exhaustive_total(max_kwargs, depth):
    ops = len(all_ops())
    cons = constructs(max_kwargs)
    ncons = len([c for c in cons if len(c) == 2]) if max_kwargs == 2 else len(cons)
    return ncons * sum(ops ** d for d in range(depth + 1))


def plan(tier, seed, args):
    n = args.runs or (600 if tier == "quick" else 15000)
    tasks = []
    run = 0
    if args.only != "seeded":
        for mk, depth in exhaustive_space(tier):
            total = exhaustive_total(mk, depth)
            chunk = 2000
            for lo in range(0, total, chunk):
                tasks.append({"run": run, "seed": seed, "tier": tier, "exh": [mk, depth, lo, lo + chunk]})
                run += 1
    if args.only != "exhaustive":
        for i in range(n):
            tasks.append({"run": run, "seed": seed, "tier": tier, "n": 40})
            run += 1
        # the same kind of seeded histories in an interpreter started with -O (fresh run ids): chunks of 25 tasks per interpreter
        first = run
        nopt = max(25, n // 6)
        for lo in range(0, nopt, 25):
            tasks.append({"run": first + lo, "seed": seed, "tier": tier, "n": 40, "pyopt": True, "sub": list(range(first + lo, first + min(lo + 25, nopt)))})
        run = first + nopt
        for i in range(n // 2):
            tasks.append({"run": run, "seed": seed, "tier": tier, "threads": 12})
            run += 1
        for i in range(max(20, n // 10)):
            tasks.append({"run": run, "seed": seed, "tier": tier, "scenarios": 60})
            run += 1
    return tasks


def run_task(task):
    if task.get("pyopt") and not sys.flags.optimize:
        # environment dimension: the same seeded tasks in an interpreter started with -O (no assert statements)
        from sim import pyopt

        sub = [{k: v for k, v in task.items() if k not in ("pyopt", "sub")} | {"run": r} for r in task["sub"]]
        return pyopt.merge(pyopt.run_optimized("checks.c11", sub), "pyopt")
    rng = common.rng_for(task["seed"], ID, task["run"])
    stats = Stats()
    viols = []
    dig = []
    sample = None
    if "threads" in task:
        for j in range(task["threads"]):
            nth = rng.choice([2, 2, 3])
            r = rng.random()
            policy = ["random", rng.choice([0.01, 0.05, 0.2])] if r < 0.6 else ["newline", 0.01, rng.choice([0.1, 0.3])] if r < 0.8 else ["pct", rng.choice([1, 2, 3])]
            trace = {"histories": [gen_trace(rng) for _ in range(nth)], "policy": policy, "schedule": None}
            if rng.random() < 0.5:
                trace["background"] = rng.choice(BACKGROUND)
            srng = common.rng_for(task["seed"], ID, task["run"], j, "schedule")
            vs, baton, steps = run_threads(trace, srng)
            for v in vs:
                v["trace"]["schedule"] = baton.replay_list()
            viols.extend(vs)
            nsw = sum(1 for sw in baton.switches if sw[0] > 0)
            stats.inc("outcome.threaded_runs")
            stats.inc("probe.switches_inside_iodata", nsw)
            stats.inc("steps", steps)
            if nsw:
                stats.add("nontrivial", common.short(common.jdump(trace) + repr(baton.switches)))
            stats.add("schedules", common.short(repr(baton.switches)))
            dig.append((common.short(common.jdump(trace)), len(vs), common.short(repr(baton.switches))))
        return {"n": task["threads"], "digest": common.short(repr(dig)), "violations": viols, "stats": stats.export(),
                "sample": {"mode": "threads", "histories": [h["ops"][:4] for h in trace["histories"]], "policy": trace["policy"],
                           "switches": len(baton.switches)} if task["run"] % 101 == 0 else None}
    if "scenarios" in task:
        for _ in range(task["scenarios"]):
            t = gen_scenario(rng)
            vs = run_scenario(t)
            viols.extend(vs)
            stats.inc(f"outcome.scenario_{t['scenario']}")
            dig.append((common.short(common.jdump(t)), len(vs)))
        return {"n": task["scenarios"], "digest": common.short(repr(dig)), "violations": viols, "stats": stats.export(), "sample": None}
    if "exh" in task:
        traces = exhaustive_histories(*task["exh"])
        stats.add("exhaustive_spaces", f"construct<={task['exh'][0]}args x depth<={task['exh'][1]}")
    else:
        traces = (gen_trace(rng) for _ in range(task["n"]))
    ntr = 0
    for trace in traces:
        ntr += 1
        if "exh" in task:
            stats.inc("probe.exhaustive_histories")
        vs = execute(trace)
        viols.extend(vs)
        nobs = sum(1 for o in trace["ops"] if o["who"] == "obs")
        stats.inc("outcome.histories")
        stats.inc("probe.observer_reads", nobs)
        _o, mo, _f, info = run_ops(trace, True, False)
        stats.inc("probe.rejected_operations", info["rejected"])
        stats.inc("probe.default_materialised_by_read", info["materialised_by_read"])
        if nobs and info["rejected"]:
            stats.add("nontrivial", common.short(common.jdump(trace)))
        stats.add("histories", common.short(common.jdump(trace)))
        stats.inc("steps", len(trace["ops"]))
        dig.append((common.short(common.jdump(trace)), len(vs), common.short(repr(mo))))
        if sample is None and task["run"] % 97 == 0 and nobs and info["rejected"]:
            sample = {"ops": trace["ops"], "mutator_outcomes": [m[0] if m[0] == "ok" else m for m in mo]}
    return {"n": ntr, "digest": common.short(repr(dig)), "violations": viols, "stats": stats.export(), "sample": sample}


def shrink(trace, still_fails):
    t = copy.deepcopy(trace)
    if "scenario" in t:
        if t["scenario"] == "alias" and len(t["ops"]) > 1:
            t["ops"] = shr.ddmin_list(t["ops"], lambda o: still_fails({**t, "ops": o}), min_len=1)
        if t["scenario"] == "stored" and len(t["assign"]) > 1:
            t["assign"] = shr.ddmin_list(t["assign"], lambda a_: still_fails({**t, "assign": a_}), min_len=1)
        return t
    if "histories" in t:
        if t.get("schedule"):
            t["schedule"] = shr.ddmin_list(t["schedule"], lambda sc: still_fails({**t, "schedule": sc}))
        return t
    head, rest = t["ops"][:1], t["ops"][1:]
    rest = shr.ddmin_list(rest, lambda r: still_fails({"ops": head + r}))
    t["ops"] = head + rest
    # fewer constructor arguments
    kw = t["ops"][0]["kwargs"]
    for a in list(kw):
        t2 = copy.deepcopy(t)
        del t2["ops"][0]["kwargs"][a]
        if still_fails(t2):
            t = t2
    return t


def coverage_extra(stats, tier):
    return {
        "distinct_states": stats.distinct("histories"),
        "distinct_interleavings": stats.distinct("schedules"),
        "exhaustive_subspaces": sorted(stats.s.get("exhaustive_spaces", [])),
        "exhaustive_histories": stats.c.get("probe.exhaustive_histories", 0),
        "exhaustive_note": "the listed sub-spaces (all constructions with that many arguments over the value alphabets x all operation "
                           "sequences up to that depth) are enumerated completely; everything deeper is seeded sampling",
        "fault_kinds_configured": ["rejected assignment (TypeError by validators/setters)", "observer read interleaved between mutator steps"],
        "simulated_time": "operations (one step = one construct/assign/read)",
    }
