"""./check selftest-mutants [--only <id-substring>] : apply each mutant to a scratch copy of the
repo under /tmp, run the quick check of its property with VERIF_REPO pointing there and require
exit 1 + a VIOLATION line.  With VERIF_MUTANT_TESTS=1 the repo's own test suite is run on the
mutant as well (slow) to confirm that the existing tests do not notice it."""

import json
import os
import shutil
import subprocess
import sys
import tempfile
import time
from concurrent.futures import ThreadPoolExecutor

from selftest.mutant_specs import MUTANTS
from sim import common


def apply(spec, root):
    edits = [(spec["file"], spec["old"], spec["new"])] + list(spec.get("extra", []))
    for rel, old, new in edits:
        path = os.path.join(root, rel)
        with open(path) as fh:
            text = fh.read()
        if text.count(old) != 1:
            return f"pattern matches {text.count(old)} times in {rel}"
        with open(path, "w") as fh:
            fh.write(text.replace(old, new))
    return None


def one(spec, with_tests, workers):
    t0 = time.time()
    scratch = tempfile.mkdtemp(prefix="mut-" + spec["id"] + "-")
    try:
        root = os.path.join(scratch, "repo")
        shutil.copytree(common.REPO, root, ignore=shutil.ignore_patterns(".git", "__pycache__", "docs", "*.egg-info"))
        err = apply(spec, root)
        if err:
            return {"id": spec["id"], "status": "does-not-apply", "detail": err}
        res = {"id": spec["id"], "prop": spec["prop"]}
        env = {**os.environ, "VERIF_REPO": root, "VERIF_WORKERS": str(workers)}
        env.pop("VERIF_SEED", None)
        cp = subprocess.run([os.path.join(common.VERIF, "check"), spec["prop"], "--tier", "quick", "--no-evidence"],
                            capture_output=True, text=True, env=env, timeout=1800)
        lines = [l for l in cp.stdout.splitlines() if l.startswith("VIOLATION ")]
        res["exit"] = cp.returncode
        res["killed"] = cp.returncode == 1 and bool(lines)
        res["violations"] = len(lines)
        cls = [l.strip() for l in cp.stdout.splitlines() if l.startswith("  ") and ":" in l][:2]
        res["first"] = cls[0][:200] if cls else ""
        if cp.returncode not in (0, 1):
            res["detail"] = (cp.stdout[-800:] + cp.stderr[-800:])
        if with_tests:
            tp = subprocess.run([sys.executable, "-m", "pytest", "-q", "-p", "no:cacheprovider", "-x", "-n", "4",
                                 "--ignore=iodata/test/test_overlap.py", "iodata"], cwd=root, capture_output=True, text=True, timeout=3600,
                                env={k: v for k, v in os.environ.items() if not k.startswith("VERIF_")})
            res["tests_pass"] = tp.returncode == 0
            res["tests_tail"] = tp.stdout.strip().splitlines()[-1][:160] if tp.stdout.strip() else ""
        res["wall_s"] = round(time.time() - t0, 1)
        return res
    finally:
        shutil.rmtree(scratch, ignore_errors=True)


def main(args):
    specs = [m for m in MUTANTS if not args.only or args.only in m["id"] or args.only == m["prop"]]
    with_tests = os.environ.get("VERIF_MUTANT_TESTS") == "1"
    par = 4
    workers = max(2, (os.cpu_count() or 4) // par)
    results = []
    with ThreadPoolExecutor(par) as ex:
        for res in ex.map(lambda s: one(s, with_tests, workers), specs):
            results.append(res)
            print(json.dumps(res))
            sys.stdout.flush()
    killed = sum(1 for r in results if r.get("killed"))
    print(f"mutants killed: {killed}/{len(results)}")
    out = os.path.join(common.VERIF, "selftest", "mutants_last.json")
    merged = {}
    if os.path.exists(out):
        try:
            with open(out) as fh:
                merged = {r["id"]: r for r in json.load(fh)}
        except (OSError, ValueError):
            merged = {}
    valid = {m["id"] for m in MUTANTS}
    for r in results:
        merged[r["id"]] = r
    with open(out, "w") as fh:
        json.dump([merged[k] for k in sorted(merged) if k in valid], fh, indent=1)
    return 0 if killed == len(results) else 1
